#!/bin/bash
# Cross matrix: every seeded change against the checks of its domain group (chosen from the files it edits).
# Results are appended to seeded/CROSS.tsv. Long-running (hours); meant to be started in the background.
VERIF="$(cd "$(dirname "$0")/.." && pwd)"
export RESULTS_FILE=$VERIF/seeded/CROSS.tsv
for d in $VERIF/seeded/C*; do
  s=$(basename $d)
  files=$(grep -h "^+++ b/" $d/patch.diff | sed 's#+++ b/src/##' | tr '\n' ' ')
  props=""
  case "$files" in *regular_expressions*|*loop_ranges*|*store*|*bfs_queues*|*labeled_queues*) props="$props C01 C02 C03 C04 C05 C07 C10 C14 C15 C16 C18 C19";; esac
  case "$files" in *character_sets*) props="$props C01 C02 C03 C11 C12 C13 C14 C20";; esac
  case "$files" in *automata*|*minimizer*|*partitions*|*compact_tables*|*fast_sets*) props="$props C02 C04 C13 C14 C19";; esac
  case "$files" in *smt_strings*) props="$props C06 C08 C09 C17 C10";; esac
  case "$files" in *matcher*|*smt_regular_expressions*) props="$props C06 C10 C17";; esac
  props=$(echo $props | tr ' ' '\n' | sort -u | tr '\n' ' ')
  # skip what is already recorded
  todo=""
  for p in $props; do grep -q -P "^$s\t$p\t" $RESULTS_FILE 2>/dev/null || todo="$todo $p"; done
  [ -n "$todo" ] && nice -n 10 $VERIF/tools/seed_matrix.sh quick "$s" $todo
done
