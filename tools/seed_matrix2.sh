#!/bin/bash
# usage: tools/seed_matrix.sh <tier> <seed-name|all> [PROP ...]
# Runs checks against seeded changes on a scratch copy of /repo (never touches /repo itself); with no PROP, the
# seed's own property is checked. Appends one line per (seed, property) to seeded/RESULTS.tsv.
set -u
TIER="$1"; WHICH="$2"; shift 2
VERIF="$(cd "$(dirname "$0")/.." && pwd)"
SCR=/var/tmp/verif-scratch; mkdir -p $SCR
REPO_COPY=$SCR/repo-mut-${MUT_TAG:-x}
export VERIF_SCRATCH=$SCR VERIF_REPO=$REPO_COPY VERIF_DIR=$SCR/out-${MUT_TAG:-x}
mkdir -p $VERIF_DIR; cp $VERIF/known_findings.json $VERIF_DIR/
seeds=$WHICH; [ "$WHICH" = all ] && seeds=$(ls $VERIF/seeded | grep -E '^C[0-9]+-')
for s in $seeds; do
  rsync -a --delete --exclude target --exclude .git /repo/ $REPO_COPY/
  ( cd $REPO_COPY && patch -p1 -s < $VERIF/seeded/$s/patch.diff ) || { echo "$s: patch failed"; continue; }
  props="$@"; [ -z "$props" ] && props=$(echo $s | cut -d- -f1)
  for p in $props; do
    out=$($VERIF/check.sh $p $TIER 2>&1); rc=$?
    first=$(echo "$out" | grep -A1 -m1 "^VIOLATION" | tail -1 | cut -c1-300)
    printf "%s\t%s\t%s\texit=%s\t%s\n" "$s" "$p" "$TIER" "$rc" "$first" | tee -a ${RESULTS_FILE:-$VERIF/seeded/RESULTS.tsv}
  done
done
rm -rf $REPO_COPY $SCR/out-${MUT_TAG:-x}
