#!/bin/bash
# Runs every behaviour-preserving change of seeded/benign against the quick checks of its domain (B1-B3: all 20).
# Results go to the file given as $1 (default seeded/benign/RESULTS.tsv); every line must say exit=0.
VERIF="$(cd "$(dirname "$0")/.." && pwd)"
export RESULTS_FILE="${1:-$VERIF/seeded/benign/RESULTS.tsv}" MUT_TAG=ben
ALL="C01 C02 C03 C04 C05 C06 C07 C08 C09 C10 C11 C12 C13 C14 C15 C16 C17 C18 C19 C20"
for d in $VERIF/seeded/benign/${BENIGN_GLOB:-*}/; do
  s=benign/$(basename $d)
  case "$s" in
    benign/B*) props="$ALL";;
    benign/R-automata*|benign/R2-automata*) props="C02 C04 C05 C13 C14 C19";;
    benign/R-hashcons*|benign/R2-hashcons*) props="C01 C02 C05 C07 C10 C16 C18 C19";;
    benign/R-intervals*|benign/R2-intervals*) props="C01 C02 C03 C11 C12 C13 C14 C15 C20";;
    benign/R-regex*|benign/R2-regex*) props="C01 C02 C03 C04 C05 C07 C10 C14 C16 C18 C19";;
    benign/R-strings*|benign/R2-strings*) props="C06 C08 C09 C10 C17";;
    *) props="$ALL";;
  esac
  if [ -n "${PROP_FILTER:-}" ]; then f=""; for p in $props; do case " $PROP_FILTER " in *" $p "*) f="$f $p";; esac; done; props="$f"; fi
  [ -n "$props" ] && $VERIF/tools/seed_matrix2.sh quick "$s" $props
done
