#!/bin/bash
# usage: tools/run_all.sh <tier> [props...]   runs the checks one after the other and prints one line each
TIER="${1:-quick}"; shift
PROPS="${@:-C01 C02 C03 C04 C05 C06 C07 C08 C09 C10 C11 C12 C13 C14 C15 C16 C17 C18 C19 C20}"
cd "$(dirname "$0")/.."
for p in $PROPS; do
  s=$(date +%s)
  out=$(./check.sh $p $TIER 2>&1); rc=$?
  e=$(date +%s)
  echo "$p exit=$rc total=$((e-s))s :: $(echo "$out" | grep -E '^\[' | tr '\n' ' ')"
  echo "$out" | grep -E "VIOLATION|MACHINERY|KNOWN" | head -5
done
