#!/bin/bash
# Non-vacuity audit (not part of any verdict): which lines of /repo/src do the quick checks execute?
# usage: tools/audit_coverage.sh [PROP ...]      (default: all 20) -> prints uncovered lines per file
set -u
VERIF="$(cd "$(dirname "$0")/.." && pwd)"
SCR=/var/tmp/verif-scratch/cov; rm -rf $SCR; mkdir -p $SCR/prof $SCR/out
rsync -a --exclude 'target*' $VERIF/harness/ $SCR/harness/
cd $SCR/harness
LLVM=$(dirname $(find ~/.rustup/toolchains/nightly-x86_64-unknown-linux-gnu -name llvm-profdata | head -1))
export CARGO_NET_OFFLINE=true RUSTFLAGS="-C instrument-coverage"
cargo +nightly build --offline --release 2>&1 | tail -1
PROPS="${@:-C01 C02 C03 C04 C05 C06 C07 C08 C09 C10 C11 C12 C13 C14 C15 C16 C17 C18 C19 C20}"
export VERIF_DIR=$SCR/out LLVM_PROFILE_FILE="$SCR/prof/%p-%m.profraw"
cp $VERIF/known_findings.json $SCR/out/
for p in $PROPS; do ./target/release/smtverif $p quick | tail -1; done
$LLVM/llvm-profdata merge -sparse $SCR/prof/*.profraw -o $SCR/all.profdata
$LLVM/llvm-cov report ./target/release/smtverif -instr-profile=$SCR/all.profdata $(ls /repo/src/*.rs) 2>/dev/null | tee $SCR/report.txt
$LLVM/llvm-cov show ./target/release/smtverif -instr-profile=$SCR/all.profdata --show-line-counts-or-regions=false --show-line-counts $(ls /repo/src/*.rs) > $SCR/show.txt 2>/dev/null
python3 - $SCR/show.txt <<'PY' > $SCR/uncovered.txt
import sys,re
cur=None; intest=False
for l in open(sys.argv[1]):
    m=re.match(r'^(/repo/src/\S+\.rs):$',l.strip())
    if m: cur=m.group(1); intest=False; continue
    m=re.match(r'^\s*(\d+)\|\s*(\d+[kMG.]*|)\|(.*)$',l.rstrip('\n'))
    if not m or not cur: continue
    ln,cnt,src=m.groups()
    if '#[cfg(test)]' in src: intest=True
    if intest: continue
    if cnt=='0': print(f"{cur}:{ln}: {src}")
PY
wc -l $SCR/uncovered.txt
