#!/bin/bash
# usage: tools/seedtest.sh <patch.diff> <tier> <PROP> [PROP...]
# applies a seeded change to /repo, runs the given checks, and always restores /repo afterwards
set -u
PATCH="$1"; TIER="$2"; shift 2
cd /repo || exit 2
if ! git diff --quiet; then echo "/repo has uncommitted changes, refusing"; exit 2; fi
git apply "$PATCH" || { echo "patch does not apply"; exit 2; }
trap 'git -C /repo checkout -- . ; echo "(repo restored)"' EXIT
for p in "$@"; do
  out=$(/verif/check.sh "$p" "$TIER" 2>&1); rc=$?
  echo "== $p exit=$rc"
  echo "$out" | grep -E "VIOLATION|MACHINERY|KNOWN|^\[|^  " | head -8
done
