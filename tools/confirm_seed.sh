#!/bin/bash
# usage: tools/confirm_seed.sh <dir with patch.diff demo.rs meta.json> <name>
# confirms in a scratch worktree: patch applies, suite (60 lib tests) passes with it, demo fails with it, demo passes without it
set -u
D="$1"; NAME="$2"
WT=/tmp/seedconfirm/$NAME
rm -rf "$WT"; git -C /repo worktree prune
git -C /repo worktree add -q --detach "$WT" HEAD || exit 2
cd "$WT" && mkdir -p tests && cp "$D/demo.rs" tests/demo_seed.rs
export CARGO_TARGET_DIR=/tmp/seedconfirm/target-$NAME
r_clean=$(cargo test --offline --test demo_seed 2>&1 | grep -E "^test result" | head -1)
git apply "$D/patch.diff" || { echo "$NAME: PATCH DOES NOT APPLY"; exit 1; }
r_suite=$(cargo test --offline --lib 2>&1 | grep -E "^test result" | head -1)
r_doc=$(cargo test --offline --doc 2>&1 | grep -E "^test result" | head -1)
r_demo=$(cargo test --offline --test demo_seed 2>&1 | grep -E "^test result" | head -1)
echo "$NAME | clean-demo: $r_clean | suite: $r_suite | doc: $r_doc | demo-with-change: $r_demo"
cd / && git -C /repo worktree remove --force "$WT"; rm -rf "$CARGO_TARGET_DIR"
