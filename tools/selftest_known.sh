#!/bin/bash
# Self-test of the known-findings mechanism (not a registered check): with seeded change C20-A applied to a scratch copy
# of the repository, exactly two cases of C20 fail. (1) nothing listed -> exit 1, two VIOLATION lines; (2) one listed ->
# exit 1, one KNOWN-FINDING line and one VIOLATION line; (3) both listed -> exit 0, two KNOWN-FINDING lines.
set -u
VERIF="$(cd "$(dirname "$0")/.." && pwd)"
SCR=/var/tmp/verif-scratch/selftest; rm -rf $SCR; mkdir -p $SCR/out
rsync -a --exclude target --exclude .git /repo/ $SCR/repo/
( cd $SCR/repo && patch -p1 -s < $VERIF/seeded/C20-A/patch.diff ) || exit 2
export VERIF_REPO=$SCR/repo VERIF_SCRATCH=$SCR VERIF_DIR=$SCR/out
echo '{"findings": [], "fixed": []}' > $SCR/out/known_findings.json
echo "--- (1) nothing listed"; $VERIF/check.sh C20 quick 2>&1 | grep -E "VIOLATION|KNOWN|^\[" ; echo "exit=${PIPESTATUS[0]}"
cases=$(python3 - $SCR/out/replays/C20 <<'PY'
import json,glob,sys
seen=[]
for f in sorted(glob.glob(sys.argv[1]+'/*.json')):
    c=json.load(open(f))['case']
    if c not in seen: seen.append(c)
print(json.dumps(seen))
PY
)
echo "distinct failing cases: $cases"
python3 - "$cases" $SCR/out/known_findings.json 1 <<'PY'
import json,sys
cs=json.loads(sys.argv[1]); n=int(sys.argv[3])
json.dump({"findings":[{"property":"C20","case":c,"what":"is_alphabet wrong for "+json.dumps(c)} for c in cs[:n]],"fixed":[]},open(sys.argv[2],'w'))
PY
echo "--- (2) one listed"; $VERIF/check.sh C20 quick 2>&1 | grep -E "VIOLATION|KNOWN|^\[" ; echo "exit=${PIPESTATUS[0]}"
python3 - "$cases" $SCR/out/known_findings.json 99 <<'PY'
import json,sys
cs=json.loads(sys.argv[1]); n=int(sys.argv[3])
json.dump({"findings":[{"property":"C20","case":c,"what":"is_alphabet wrong for "+json.dumps(c)} for c in cs[:n]],"fixed":[]},open(sys.argv[2],'w'))
PY
echo "--- (3) all listed"; $VERIF/check.sh C20 quick 2>&1 | grep -E "VIOLATION|KNOWN|^\[" ; echo "exit=${PIPESTATUS[0]}"
rm -rf $SCR
