#!/bin/bash
# usage: ./check.sh <PROPERTY> <quick|thorough>      run the check of one property against /repo's working tree
#        ./check.sh replay <path>                    re-execute one recorded case (no explorer)
# exit 0: property held on everything explored (KNOWN-FINDING lines possible)
# exit 1: at least one "VIOLATION property=<id> replay=<path>" line
# exit 2: machinery failure (build error, engine crash, budget) - never a verdict
set -u
HERE="$(cd "$(dirname "$0")" && pwd)"
export VERIF_DIR="${VERIF_DIR:-$HERE}"
export CARGO_NET_OFFLINE=true
REPO="${VERIF_REPO:-/repo}"
HARNESS="$HERE/harness"
if [ "$REPO" != "/repo" ]; then
  # mutation runs: a scratch copy of the harness that points at another copy of the repository
  SCR="${VERIF_SCRATCH:-/var/tmp/verif-scratch}/h-$(echo "$REPO" | md5sum | cut -c1-10)"
  mkdir -p "$SCR"
  rsync -a --delete --exclude 'target*' "$HERE/harness/" "$SCR/"
  sed -i "s#path = \"/repo\"#path = \"$REPO\"#" "$SCR/Cargo.toml"
  HARNESS="$SCR"
fi
cd "$HARNESS" || exit 2

build() { # $1 = release|dev
  local flag=""; [ "$1" = release ] && flag="--release"
  local log; log="$(mktemp "${TMPDIR:-/var/tmp}/smtverif-build.XXXXXX")"
  if ! cargo build --offline $flag >"$log" 2>&1; then
    echo "MACHINERY-FAILURE: building the harness against $REPO failed ($1 profile)" >&2
    grep -E "^(error|warning: unused)" -A8 "$log" | head -60 >&2
    rm -f "$log"; exit 2
  fi
  rm -f "$log"
}

# address-space limit per process: a runaway allocation aborts a worker instead of the machine
ulimit -v $((24*1024*1024)) 2>/dev/null || true

if [ "${1:-}" = "replay" ]; then
  [ $# -ge 2 ] || { echo "usage: $0 replay <path>" >&2; exit 2; }
  case "$2" in /*) ;; *) set -- "$1" "$OLDPWD/$2";; esac
  prof=$(python3 -c "import json,sys;print(json.load(open(sys.argv[1])).get('profile','release'))" "$2" 2>/dev/null || echo release)
  if [ "$prof" = dev ]; then build dev; exec ./target/debug/smtverif replay "$2"; fi
  build release; exec ./target/release/smtverif replay "$2"
fi

PROP="${1:-}"; TIER="${2:-${VERIF_TIER:-quick}}"
[ -n "$PROP" ] || { echo "usage: $0 <PROPERTY> <quick|thorough>" >&2; exit 2; }
mkdir -p "$VERIF_DIR/evidence"
rm -f "$VERIF_DIR/evidence/$PROP.json"

build release
./target/release/smtverif "$PROP" "$TIER"; rc=$?

# properties whose arithmetic depends on the build configuration run in the dev profile too
case "$PROP" in
  C09|C11|C12|C15|C20)
    build dev
    VERIF_EVIDENCE_MERGE=1 ./target/debug/smtverif "$PROP" "$TIER"; rc2=$?
    if [ $rc -eq 0 ]; then rc=$rc2; elif [ $rc2 -eq 1 ]; then rc=1; fi
    ;;
esac
exit $rc
