//! Hand-built automata: C04 (minimize), C14 (pruning, tables) and C13 (AutomatonBuilder).
//!
//! `DfaEngine` enumerates *every* complete DFA with n states over a small letter layout, every set of
//! final states, presented to AutomatonBuilder in several label shapes (with/without defaults, ranges,
//! different call orders), including automata with unreachable parts. `BldEngine` enumerates builder
//! call sequences that may be incomplete, conflicting or overlapping and compares build() with a model.

use crate::infra::*;
use crate::regex::{check_counts, check_tables};
use aws_smt_strings::automata::*;
use aws_smt_strings::character_sets::CharSet;
use aws_smt_strings::smt_strings::MAX_CHAR;
use serde_json::{json, Value};
use std::collections::{HashMap, HashSet};

const A: u32 = 'a' as u32;
const B: u32 = 'b' as u32;

#[derive(Clone, Copy, PartialEq, Eq, Debug)]
pub enum DKind {
    C04,
    C13,
    C14,
}
impl DKind {
    fn id(&self) -> &'static str {
        match self {
            DKind::C04 => "C04",
            DKind::C13 => "C13",
            DKind::C14 => "C14",
        }
    }
}

/// letters of a layout with k letters: k=3: a, b, other; k=2: a, other. Each letter with its probe characters.
fn layout(k: usize) -> Vec<Vec<u32>> {
    match k {
        2 => vec![vec![A], vec![0, A - 1, A + 1, MAX_CHAR]],
        3 => vec![vec![A], vec![B], vec![0, A - 1, B + 1, MAX_CHAR]],
        4 => vec![vec![A], vec![B], vec![B + 1], vec![0, A - 1, B + 2, MAX_CHAR]],
        _ => {
            // k-1 single letters A, A+1, ... and 'other'
            let mut v: Vec<Vec<u32>> = (0..k as u32 - 1).map(|i| vec![A + i]).collect();
            v.push(vec![0, A - 1, A + k as u32 - 1, MAX_CHAR]);
            v
        }
    }
}

pub const NSHAPES: usize = 8;

/// present the transition function of state q to the builder in one of several shapes
fn add_state(b: &mut AutomatonBuilder<usize>, k: usize, shape: usize, q: usize, row: &[usize]) {
    let other = row[k - 1];
    let hi = A + (k as u32 - 2); // last single letter
    let singles: Vec<(CharSet, usize)> = (0..k - 1).map(|i| (CharSet::singleton(A + i as u32), row[i])).collect();
    match shape {
        // maximal runs of equal targets as range labels: all of them (6), or only those that differ from the default (7)
        6 | 7 => {
            let mut segs: Vec<(u32, u32, usize)> = vec![(0, A - 1, other)];
            for i in 0..k - 1 {
                segs.push((A + i as u32, A + i as u32, row[i]));
            }
            segs.push((hi + 1, MAX_CHAR, other));
            let mut runs: Vec<(u32, u32, usize)> = vec![];
            for (l, h, t) in segs {
                match runs.last_mut() {
                    Some(r) if r.2 == t => r.1 = h,
                    _ => runs.push((l, h, t)),
                }
            }
            for (l, h, t) in runs {
                if shape == 6 || t != other {
                    b.add_transition(&q, &CharSet::range(l, h), &t);
                }
            }
            if shape == 7 {
                b.set_default_successor(&q, &other);
            }
        }
        // single-character transitions, then the default
        0 => {
            for (s, t) in &singles {
                b.add_transition(&q, s, t);
            }
            b.set_default_successor(&q, &other);
        }
        // no default: labels cover the alphabet, ascending order
        1 => {
            b.add_transition(&q, &CharSet::range(0, A - 1), &other);
            for (s, t) in &singles {
                b.add_transition(&q, s, t);
            }
            b.add_transition(&q, &CharSet::range(hi + 1, MAX_CHAR), &other);
        }
        // no default, descending order
        2 => {
            b.add_transition(&q, &CharSet::range(hi + 1, MAX_CHAR), &other);
            for (s, t) in singles.iter().rev() {
                b.add_transition(&q, s, t);
            }
            b.add_transition(&q, &CharSet::range(0, A - 1), &other);
        }
        // a range transition into the default target as well as the default
        3 => {
            b.add_transition(&q, &CharSet::range(0, A - 1), &other);
            for (s, t) in &singles {
                b.add_transition(&q, s, t);
            }
            b.set_default_successor(&q, &other);
        }
        // default declared first, letters in reverse order
        4 => {
            b.set_default_successor(&q, &other);
            for (s, t) in singles.iter().rev() {
                b.add_transition(&q, s, t);
            }
        }
        // default declared in the middle, upper range explicit
        _ => {
            b.add_transition(&q, &singles[0].0, &singles[0].1);
            b.set_default_successor(&q, &other);
            b.add_transition(&q, &CharSet::range(hi + 1, MAX_CHAR), &other);
            for (s, t) in singles.iter().skip(1) {
                b.add_transition(&q, s, t);
            }
        }
    }
}

fn build_dfa(n: usize, k: usize, delta: &[usize], fin: &[bool], shape: usize, unchecked: bool) -> Result<Automaton, aws_smt_strings::errors::Error> {
    let mut b = AutomatonBuilder::new(&0usize);
    for q in 0..n {
        add_state(&mut b, k, shape, q, &delta[q * k..(q + 1) * k]);
        if fin[q] {
            b.mark_final(&q);
        }
    }
    finish_build(b, unchecked)
}

/// `build()`, or `build_unchecked()` for the checks of C04/C14 when `build()` refuses a specification that is
/// complete and deterministic by construction (that refusal is C13's business; C04/C14 still get their automaton)
fn finish_build(mut b: AutomatonBuilder<usize>, unchecked: bool) -> Result<Automaton, aws_smt_strings::errors::Error> {
    if unchecked {
        Ok(b.build_unchecked())
    } else {
        b.build()
    }
}

/// the automaton's own transition table over all probe characters, read through next()
struct Table {
    n: usize,
    chars: Vec<u32>,
    delta: Vec<usize>,
    fin: Vec<bool>,
    init: usize,
}

fn read_table(a: &Automaton, chars: &[u32]) -> Table {
    let n = a.num_states();
    let mut delta = Vec::with_capacity(n * chars.len());
    let mut fin = vec![];
    for q in 0..n {
        let s = a.state(q);
        fin.push(s.is_final());
        for &c in chars {
            delta.push(a.next(s, c).id());
        }
    }
    Table { n, chars: chars.to_vec(), delta, fin, init: a.initial_state().id() }
}

impl Table {
    fn step(&self, q: usize, ci: usize) -> usize {
        self.delta[q * self.chars.len() + ci]
    }
    /// Nerode classes among all states (Moore refinement)
    fn classes(&self) -> usize {
        let k = self.chars.len();
        let mut cls: Vec<usize> = self.fin.iter().map(|&f| f as usize).collect();
        loop {
            let mut sig: HashMap<(usize, Vec<usize>), usize> = HashMap::new();
            let mut ncls = vec![0; self.n];
            for q in 0..self.n {
                let s: Vec<usize> = (0..k).map(|x| cls[self.step(q, x)]).collect();
                let l = sig.len();
                ncls[q] = *sig.entry((cls[q], s)).or_insert(l);
            }
            let old: HashSet<usize> = cls.iter().copied().collect();
            let done = sig.len() == old.len();
            cls = ncls;
            if done {
                return cls.iter().collect::<HashSet<_>>().len();
            }
        }
    }
    /// the same automaton restricted to the states reachable from the initial state
    fn pruned(&self) -> Table {
        let mut reach = self.reachable();
        reach.sort_unstable();
        let idx: HashMap<usize, usize> = reach.iter().enumerate().map(|(i, &q)| (q, i)).collect();
        let k = self.chars.len();
        let mut delta = vec![];
        let mut fin = vec![];
        for &q in &reach {
            fin.push(self.fin[q]);
            for x in 0..k {
                delta.push(idx[&self.step(q, x)]);
            }
        }
        Table { n: reach.len(), chars: self.chars.clone(), delta, fin, init: idx[&self.init] }
    }
    /// the quotient by Nerode equivalence among all states present
    fn quotient(&self) -> Table {
        let k = self.chars.len();
        let mut cls: Vec<usize> = self.fin.iter().map(|&f| f as usize).collect();
        loop {
            let mut sig: HashMap<(usize, Vec<usize>), usize> = HashMap::new();
            let mut ncls = vec![0; self.n];
            for q in 0..self.n {
                let s: Vec<usize> = (0..k).map(|x| cls[self.step(q, x)]).collect();
                let l = sig.len();
                ncls[q] = *sig.entry((cls[q], s)).or_insert(l);
            }
            let old: HashSet<usize> = cls.iter().copied().collect();
            let done = sig.len() == old.len();
            cls = ncls;
            if done {
                break;
            }
        }
        let nc = cls.iter().collect::<HashSet<_>>().len();
        let mut rep = vec![usize::MAX; nc];
        for q in 0..self.n {
            if rep[cls[q]] == usize::MAX {
                rep[cls[q]] = q;
            }
        }
        let mut delta = vec![];
        let mut fin = vec![];
        for c in 0..nc {
            fin.push(self.fin[rep[c]]);
            for x in 0..k {
                delta.push(cls[self.step(rep[c], x)]);
            }
        }
        Table { n: nc, chars: self.chars.clone(), delta, fin, init: cls[self.init] }
    }
    fn reachable(&self) -> Vec<usize> {
        let mut seen = vec![false; self.n];
        let mut st = vec![self.init];
        seen[self.init] = true;
        let mut out = vec![];
        while let Some(q) = st.pop() {
            out.push(q);
            for x in 0..self.chars.len() {
                let t = self.step(q, x);
                if !seen[t] {
                    seen[t] = true;
                    st.push(t);
                }
            }
        }
        out
    }
    /// product BFS of this table (from its initial state) with an automaton; returns (pairs, steps, mismatch word, states of b reached)
    fn compare(&self, b: &Automaton) -> (u64, u64, Option<Vec<u32>>, HashSet<usize>) {
        let mut seen: HashSet<(usize, usize)> = HashSet::new();
        let mut nodes: Vec<(usize, usize, usize, u32)> = vec![(self.init, b.initial_state().id(), 0, 0)];
        seen.insert((self.init, b.initial_state().id()));
        let mut reached = HashSet::new();
        let mut steps = 0u64;
        let mut i = 0;
        while i < nodes.len() {
            let (q, m, _, _) = nodes[i];
            reached.insert(m);
            if self.fin[q] != b.state(m).is_final() {
                let mut w = vec![];
                let mut j = i;
                while j != 0 {
                    w.push(nodes[j].3);
                    j = nodes[j].2;
                }
                w.reverse();
                return (nodes.len() as u64, steps, Some(w), reached);
            }
            for (ci, &c) in self.chars.iter().enumerate() {
                steps += 1;
                let t = (self.step(q, ci), b.next(b.state(m), c).id());
                if seen.insert(t) {
                    nodes.push((t.0, t.1, i, c));
                }
            }
            i += 1;
        }
        (nodes.len() as u64, steps, None, reached)
    }
}

fn all_chars_of(k: usize) -> Vec<u32> {
    layout(k).into_iter().flatten().collect()
}

/// one DFA case under one property oracle
fn dfa_case(kind: DKind, n: usize, k: usize, delta: &[usize], fin: &[bool], shape: usize, with_ops: bool, rep: &mut Report) -> Vec<String> {
    let chars = all_chars_of(k);
    let lay = layout(k);
    let spec = |q: usize, c: u32| delta[q * k + lay.iter().position(|l| l.contains(&c)).unwrap()];
    automaton_case(kind, n, &|unchecked| build_dfa(n, k, delta, fin, shape, unchecked), &chars, &spec, fin, with_ops, rep)
}

/// the checks of one property on one specified automaton, given as a function that builds it afresh
fn automaton_case(kind: DKind, n: usize, build: &dyn Fn(bool) -> Result<Automaton, aws_smt_strings::errors::Error>, chars: &[u32], spec: &dyn Fn(usize, u32) -> usize, fin: &[bool], with_ops: bool, rep: &mut Report) -> Vec<String> {
    let mut msgs = vec![];
    let chars = chars.to_vec();
    let built = guarded(|| build(false));
    let mut unchecked = false;
    let a = match built {
        Ok(Ok(a)) => a,
        other => {
            if kind == DKind::C13 {
                match other {
                    Err(e) => msgs.push(format!("build() {}", e)),
                    Ok(Err(e)) => msgs.push(format!("build() rejected a complete, conflict-free specification (defaults only where needed) with {:?}", e)),
                    _ => {}
                }
                return msgs;
            }
            // C04 / C14 are about what happens to an automaton, not about build(): take the unchecked route
            rep.inc("build_failed");
            unchecked = true;
            match guarded(|| build(true)) {
                Ok(Ok(a)) => {
                    rep.inc("built_unchecked_instead");
                    a
                }
                _ => {
                    rep.inc("no_automaton_obtained");
                    return msgs;
                }
            }
        }
    };
    match kind {
        DKind::C13 => {
            // the automaton must be the specified one up to a renaming of states that maps key 0 to the initial state
            if a.num_states() != n {
                msgs.push(format!("num_states() = {}, the specification mentions {} states", a.num_states(), n));
                return msgs;
            }
            let nf = fin.iter().filter(|&&f| f).count();
            if a.num_final_states() != nf {
                msgs.push(format!("num_final_states() = {}, {} states were marked final", a.num_final_states(), nf));
            }
            let r = guarded(|| find_renaming(&a, n, spec, &chars, fin));
            match r {
                Err(e) => msgs.push(format!("stepping the built automaton {}", e)),
                Ok(None) => msgs.push("no renaming of states maps the specification to the built automaton: some successor or final flag is not the one specified".into()),
                Ok(Some(_)) => {}
            }
            rep.add("states", n as u64);
            rep.add("transitions", (n * chars.len()) as u64);
            rep.add("impl_traces", (n * chars.len()) as u64);
        }
        DKind::C04 => {
            if n >= 2 && with_ops {
                op_sequences(&|| build(unchecked).ok(), &chars, rep, &mut msgs);
            }
            let r = guarded(|| {
                let mut msgs = vec![];
                let t = read_table(&a, &chars);
                // every residual language present among the reachable states must survive, none may appear twice: with
                // unreachable states the statement leaves open whether their classes are kept
                let (lo, hi) = (t.pruned().classes(), t.classes());
                let mut m = a;
                m.minimize();
                let (pairs, steps, bad, _) = t.compare(&m);
                if m.num_states() < lo || m.num_states() > hi {
                    if lo == hi {
                        msgs.push(format!("minimize: {} states, but the {} states fall into {} classes of equal residual language", m.num_states(), t.n, hi));
                    } else {
                        msgs.push(format!("minimize: {} states, but the {} states fall into {} classes of equal residual language ({} among the reachable ones)", m.num_states(), t.n, hi, lo));
                    }
                }
                if let Some(w) = bad {
                    msgs.push(format!("minimize changed the language: the automata disagree on {:?}", w));
                }
                check_counts(&m, &mut msgs);
                // no two states of the result are equivalent
                let t2 = read_table(&m, &chars);
                if t2.classes() != m.num_states() {
                    msgs.push(format!("the minimized automaton has {} states but only {} distinct residual languages", m.num_states(), t2.classes()));
                }
                (msgs, pairs, steps, m.num_states(), t.n)
            });
            match r {
                Err(e) => msgs.push(format!("minimize {}", e)),
                Ok((m, pairs, steps, after, before)) => {
                    msgs.extend(m);
                    rep.add("states", pairs);
                    rep.add("transitions", steps);
                    rep.add("impl_traces", steps);
                    rep.hist("minimized_size", &format!("{}->{}", before, after));
                    if after < before {
                        rep.inc("nontrivial");
                    }
                }
            }
        }
        DKind::C14 => {
            if n >= 2 && with_ops {
                op_sequences(&|| build(unchecked).ok(), &chars, rep, &mut msgs);
            }
            let r = guarded(|| {
                let mut msgs = vec![];
                let mut local = Report::new();
                check_tables(&a, &chars, &mut local, &mut msgs);
                let t = read_table(&a, &chars);
                let reach = t.reachable();
                let mut m = a;
                m.remove_unreachable_states();
                if m.num_states() != reach.len() {
                    msgs.push(format!("remove_unreachable_states: {} states remain, but {} of the {} states are reachable from the initial state", m.num_states(), reach.len(), t.n));
                }
                let (pairs, steps, bad, reached) = t.compare(&m);
                if let Some(w) = bad {
                    msgs.push(format!("remove_unreachable_states changed the language: the automata disagree on {:?}", w));
                } else if reached.len() != m.num_states() {
                    msgs.push(format!("after remove_unreachable_states only {} of the {} states are reachable", reached.len(), m.num_states()));
                }
                check_tables(&m, &chars, &mut local, &mut msgs);
                // the compiled table of the minimized automaton as well
                m.minimize();
                check_tables(&m, &chars, &mut local, &mut msgs);
                (msgs, local, pairs, steps, reach.len(), t.n)
            });
            match r {
                Err(e) => msgs.push(format!("the code under test {}", e)),
                Ok((m, local, pairs, steps, nreach, before)) => {
                    msgs.extend(m);
                    rep.merge(local);
                    rep.add("states", pairs);
                    rep.add("transitions", steps);
                    rep.add("impl_traces", steps);
                    rep.hist("reachable", &format!("{} of {}", nreach, before));
                    if nreach < before {
                        rep.inc("nontrivial");
                    }
                }
            }
        }
    }
    msgs
}

/// sequences of minimize (m) / remove_unreachable_states (r) applied to a freshly built automaton; after every
/// step the automaton must have the expected number of states and the language of the original
const OP_SEQS: [&str; 7] = ["mr", "rm", "mm", "rr", "mrm", "rmr", "mrr"];

fn op_sequences(build: &dyn Fn() -> Option<Automaton>, chars: &[u32], rep: &mut Report, msgs: &mut Vec<String>) {
    for seq in OP_SEQS {
        let r = guarded(|| {
            let mut msgs = vec![];
            let mut a = match build() {
                Some(a) => a,
                None => return (msgs, 0, 0),
            };
            let orig = read_table(&a, chars);
            let mut model = read_table(&a, chars);
            let (mut pairs, mut steps) = (0u64, 0u64);
            for (k, op) in seq.chars().enumerate() {
                let (lo, hi);
                if op == 'm' {
                    a.minimize();
                    lo = model.pruned().classes();
                    hi = model.classes();
                } else {
                    a.remove_unreachable_states();
                    lo = model.pruned().n;
                    hi = lo;
                }
                let what = format!("after {} (step {} of sequence {})", if op == 'm' { "minimize" } else { "remove_unreachable_states" }, k + 1, seq);
                if a.num_states() < lo || a.num_states() > hi {
                    msgs.push(format!("{}: {} states, expected {}", what, a.num_states(), if lo == hi { format!("{}", hi) } else { format!("{} to {}", lo, hi) }));
                }
                // the next step starts from what this step produced (its language is compared with the original below)
                model = read_table(&a, chars);
                if op == 'm' && model.classes() != model.n {
                    msgs.push(format!("{}: {} states but only {} distinct residual languages", what, model.n, model.classes()));
                }
                let (p, st, bad, reached) = orig.compare(&a);
                pairs += p;
                steps += st;
                if let Some(w) = bad {
                    msgs.push(format!("{}: the language changed (word {:?})", what, w));
                }
                if op == 'r' && reached.len() != a.num_states() {
                    msgs.push(format!("{}: only {} of {} states are reachable from the initial state", what, reached.len(), a.num_states()));
                }
                check_counts(&a, &mut msgs);
                if !msgs.is_empty() {
                    break;
                }
            }
            (msgs, pairs, steps)
        });
        match r {
            Err(e) => msgs.push(format!("sequence {}: {}", seq, e)),
            Ok((m, p, st)) => {
                msgs.extend(m);
                rep.add("states", p);
                rep.add("transitions", st);
                rep.add("impl_traces", st);
                rep.inc("op_sequences");
            }
        }
        if !msgs.is_empty() {
            return;
        }
    }
}

/// search a bijection pi from specification keys 0..n to automaton states with pi(0) = initial state,
/// is_final(pi(q)) = fin[q] and next(pi(q), c) = pi(spec(q, c)) for all probe characters
fn find_renaming(a: &Automaton, n: usize, spec: &dyn Fn(usize, u32) -> usize, chars: &[u32], fin: &[bool]) -> Option<Vec<usize>> {
    fn perms(n: usize) -> Vec<Vec<usize>> {
        fn rec(cur: &mut Vec<usize>, used: &mut Vec<bool>, n: usize, out: &mut Vec<Vec<usize>>) {
            if cur.len() == n {
                out.push(cur.clone());
                return;
            }
            for i in 0..n {
                if !used[i] {
                    used[i] = true;
                    cur.push(i);
                    rec(cur, used, n, out);
                    cur.pop();
                    used[i] = false;
                }
            }
        }
        let mut out = vec![];
        rec(&mut vec![], &mut vec![false; n], n, &mut out);
        out
    }
    // identity (order of first mention) first
    'outer: for pi in perms(n) {
        if pi[0] != a.initial_state().id() {
            continue;
        }
        for q in 0..n {
            let s = a.state(pi[q]);
            if s.is_final() != fin[q] {
                continue 'outer;
            }
            for &c in chars {
                if a.next(s, c).id() != pi[spec(q, c)] {
                    continue 'outer;
                }
            }
        }
        return Some(pi);
    }
    None
}

/// the families of a tier: (n, k, shapes)
fn dfa_families(kind: DKind, tier: Tier) -> Vec<(usize, usize, Vec<usize>)> {
    let all: Vec<usize> = (0..NSHAPES).collect();
    // exploration aid (not used by any registered command): VERIF_DFA_FAMILY=n,k,shape
    if let Ok(f) = std::env::var("VERIF_DFA_FAMILY") {
        let x: Vec<usize> = f.split(',').filter_map(|t| t.parse().ok()).collect();
        if x.len() == 3 {
            return vec![(x[0], x[1], vec![x[2]])];
        }
    }
    match tier {
        Tier::Quick => {
            let mut v = vec![(1, 3, all.clone()), (2, 3, all.clone()), (2, 4, all.clone()), (3, 3, vec![0, 1, 2, 4, 6, 7]), (3, 2, all.clone()), (4, 2, vec![0, 6])];
            if kind == DKind::C14 {
                // the table checks are heavier
                v = vec![(1, 3, all.clone()), (2, 3, all.clone()), (2, 4, all.clone()), (3, 3, vec![0, 1, 7]), (3, 2, all.clone()), (4, 2, vec![0])];
            }
            v
        }
        Tier::Thorough => {
            let mut v = vec![(1, 3, all.clone()), (2, 3, all.clone()), (2, 4, all.clone()), (3, 3, all.clone()), (3, 2, all.clone()), (4, 2, all.clone()), (3, 4, vec![6, 7]), (5, 2, vec![0]), (4, 3, vec![0])];
            if kind == DKind::C14 {
                v = vec![(1, 3, all.clone()), (2, 3, all.clone()), (2, 4, all.clone()), (3, 3, all.clone()), (3, 2, all.clone()), (4, 2, all.clone()), (3, 4, vec![7]), (4, 3, vec![0])];
            }
            v
        }
    }
}

const CODES_PER_BATCH: u64 = 1024;

fn ncodes(n: usize, k: usize) -> u64 {
    (n as u64).pow((n * k) as u32)
}
fn family_batches(n: usize, k: usize) -> usize {
    ((ncodes(n, k) + CODES_PER_BATCH - 1) / CODES_PER_BATCH) as usize
}

pub struct DfaEngine {
    pub kind: DKind,
}

fn decode(n: usize, k: usize, code: u64) -> Vec<usize> {
    let mut delta = vec![0usize; n * k];
    let mut c = code;
    for d in delta.iter_mut() {
        *d = (c % n as u64) as usize;
        c /= n as u64;
    }
    delta
}

impl Engine for DfaEngine {
    fn name(&self) -> &'static str {
        "dfa"
    }
    fn meta(&self, ctx: &Ctx) -> Meta {
        let fams = dfa_families(self.kind, ctx.tier);
        let space = fams.iter().map(|(n, k, sh)| format!("all {} complete DFAs with {} states over {} letters x all {} final-state sets x label shapes {:?}", ncodes(*n, *k), n, k, 1u64 << n, sh)).collect::<Vec<_>>().join("; ");
        let rule = match self.kind {
            DKind::C04 => "every automaton of the space is built with AutomatonBuilder, its transition table is read back through next(); expected size = number of Nerode classes among all states (own Moore refinement); minimize() must not panic, must give that many states, preserve the language (product BFS with the table) and keep counts/flags consistent; non-trivial = automata that shrink",
            DKind::C13 => "every complete deterministic specification of the space (in up to 8 label shapes: with default, without default in both orders, with a transition into the default target, default declared first / in the middle, maximal runs of equal targets as range labels with and without default) must be accepted and the built automaton must be the specification up to a renaming of states fixing the initial state; non-trivial = specifications accepted",
            DKind::C14 => "for every automaton: check_tables (combined_char_partition uniformity, pick_alphabet, compile_successors cell by cell, edges, class_next, char_set_next on boundary sets, counts) before and after remove_unreachable_states and after minimize; the pruned automaton has exactly the reachable states (own BFS on the table) and the same language (product BFS), all remaining states reachable; non-trivial = automata with unreachable states",
        };
        Meta {
            level: "model_checking",
            rule: rule.to_string(),
            assumptions: vec!["letters are probed on several characters each (a; b; 0, a-1, b+1, MAX for 'other'): the table read back from the automaton has one column per probe character".into(), "every transition explored is a call of Automaton::next on the real automaton".into()],
            exhaustive: true,
            space,
        }
    }
    fn num_batches(&self, ctx: &Ctx) -> usize {
        dfa_families(self.kind, ctx.tier).iter().map(|(n, k, _)| family_batches(*n, *k)).sum()
    }
    fn run_batch(&self, ctx: &Ctx, batch: usize, rep: &mut Report) {
        let mut b = batch;
        for (n, k, shapes) in dfa_families(self.kind, ctx.tier) {
            let nb = family_batches(n, k);
            if b >= nb {
                b -= nb;
                continue;
            }
            let lo = b as u64 * CODES_PER_BATCH;
            let hi = (lo + CODES_PER_BATCH).min(ncodes(n, k));
            for code in lo..hi {
                beat();
                let delta = decode(n, k, code);
                for mask in 0..(1u32 << n) {
                    let fin: Vec<bool> = (0..n).map(|q| mask >> q & 1 == 1).collect();
                    for &shape in &shapes {
                        rep.inc("evaluations");
                        if self.kind == DKind::C13 {
                            rep.inc("nontrivial");
                        }
                        // sequences of minimize / remove_unreachable_states: thorough tier: all automata with <= 3 states and the
                        // 4-state 2-letter ones, a stride of the larger ones; quick tier: two label shapes of the small automata
                        // and a stride of the 4-state ones
                        let with_ops = if ctx.tier == Tier::Thorough { n <= 3 || (n == 4 && k == 2) || code % 64 == 3 } else { (shape == 0 || shape == 6) && (n <= 3 || code % 16 == 3) };
                        publish_case(|| json!({"__engine": "dfa", "engine": "dfa", "n": n, "k": k, "delta": delta, "final": fin, "shape": shape}));
                        let msgs = dfa_case(self.kind, n, k, &delta, &fin, shape, with_ops, rep);
                        unpublish_case();
                        if !msgs.is_empty() {
                            rep.violation(self.kind.id(), "dfa", json!({"engine": "dfa", "n": n, "k": k, "delta": delta, "final": fin, "shape": shape}), format!("DFA n={} k={} delta={:?} final={:?} shape={}: {}", n, k, delta, fin, shape, msgs.join(" | ")));
                        }
                    }
                }
                if rep.samples.len() < 2 && code == lo + 5 {
                    let sj = json!({"n": n, "k": k, "delta": delta, "final_sets": "all", "shapes": shapes});
                    rep.sample(|| sj);
                }
            }
            return;
        }
    }
    fn replay(&self, _ctx: &Ctx, c: &Value, rep: &mut Report) {
        let n = c["n"].as_u64().unwrap_or(1) as usize;
        let k = c["k"].as_u64().unwrap_or(3) as usize;
        let delta: Vec<usize> = c["delta"].as_array().map(|a| a.iter().map(|x| x.as_u64().unwrap_or(0) as usize).collect()).unwrap_or_default();
        let fin: Vec<bool> = c["final"].as_array().map(|a| a.iter().map(|x| x.as_bool().unwrap_or(false)).collect()).unwrap_or_default();
        let shape = c["shape"].as_u64().unwrap_or(0) as usize;
        rep.inc("evaluations");
        if delta.len() != n * k || fin.len() != n {
            rep.note("malformed dfa case".into());
            return;
        }
        let msgs = dfa_case(self.kind, n, k, &delta, &fin, shape, true, rep);
        if !msgs.is_empty() {
            rep.violation(self.kind.id(), "dfa", c.clone(), msgs.join(" | "));
        }
    }
    fn hang_is_violation(&self, _p: &str) -> bool {
        // build, minimize, remove_unreachable_states, compile_successors: not returning is not "producing"
        true
    }
    fn max_group(&self, _ctx: &Ctx, _batch: usize) -> usize {
        // a batch is up to 1024 transition tables x all final sets x shapes
        4
    }
}

// =============================================================================================
// C13: builder call sequences against a model

const BL: [(u32, u32); 3] = [(0, 9), (10, 19), (20, MAX_CHAR)];
const LABELS: [(usize, usize); 6] = [(0, 0), (1, 1), (2, 2), (0, 1), (1, 2), (0, 2)];
const PROBES: [u32; 9] = [0, 5, 9, 10, 15, 19, 20, 1000, MAX_CHAR];

fn block_of(c: u32) -> usize {
    BL.iter().position(|&(l, h)| l <= c && c <= h).unwrap()
}

#[derive(Clone, Debug, PartialEq)]
pub enum Call {
    Add(usize, usize, usize), // state, label index, target
    Default(usize, usize),
    Final(usize),
    /// an intermediate build() whose result is dropped: the specification is what the caller said, before and after
    Build,
    /// an intermediate build_unchecked() (only generated when the specification so far is complete and conflict-free)
    BuildUnchecked,
}

fn calls_to_json(init: usize, calls: &[Call]) -> Value {
    let v: Vec<Value> = calls
        .iter()
        .map(|c| match c {
            Call::Add(q, l, t) => json!(["add", q, l, t]),
            Call::Default(q, t) => json!(["default", q, t]),
            Call::Final(q) => json!(["final", q]),
            Call::Build => json!(["build"]),
            Call::BuildUnchecked => json!(["build_unchecked"]),
        })
        .collect();
    json!({"engine": "bld", "init": init, "calls": v})
}
fn calls_from_json(v: &Value) -> (usize, Vec<Call>) {
    let init = v["init"].as_u64().unwrap_or(0) as usize;
    let mut calls = vec![];
    if let Some(a) = v["calls"].as_array() {
        for c in a {
            let g = |i: usize| c[i].as_u64().unwrap_or(0) as usize;
            match c[0].as_str().unwrap_or("") {
                "add" => calls.push(Call::Add(g(1), g(2), g(3))),
                "default" => calls.push(Call::Default(g(1), g(2))),
                "build" => calls.push(Call::Build),
                "build_unchecked" => calls.push(Call::BuildUnchecked),
                _ => calls.push(Call::Final(g(1))),
            }
        }
    }
    (init, calls)
}

fn show_calls(init: usize, calls: &[Call]) -> String {
    let mut s = format!("new({})", init);
    for c in calls {
        match c {
            Call::Add(q, l, t) => {
                let (lo, hi) = (BL[LABELS[*l].0].0, BL[LABELS[*l].1].1);
                s.push_str(&format!(".add_transition({}, [{},{}], {})", q, lo, hi, t));
            }
            Call::Default(q, t) => s.push_str(&format!(".set_default_successor({}, {})", q, t)),
            Call::Final(q) => s.push_str(&format!(".mark_final({})", q)),
            Call::Build => s.push_str(".build()"),
            Call::BuildUnchecked => s.push_str(".build_unchecked()"),
        }
    }
    s
}

/// run one call sequence on the real builder and compare with the model
fn bld_case(init: usize, calls: &[Call], rep: &mut Report) -> Option<String> {
    // ---- model ----
    let mut keys: Vec<usize> = vec![init]; // order of first mention
    let mention = |keys: &mut Vec<usize>, s: usize| {
        if !keys.contains(&s) {
            keys.push(s);
        }
    };
    let mut trans: HashMap<usize, Vec<(usize, usize)>> = HashMap::new();
    let mut dflt: HashMap<usize, usize> = HashMap::new();
    // every value a default was declared with: when a state's default is declared twice with different targets the
    // statement's "the declared default" does not say which one counts, so either is accepted
    let mut dflt_all: HashMap<usize, Vec<usize>> = HashMap::new();
    let mut finals: HashSet<usize> = HashSet::new();
    for c in calls {
        match c {
            Call::Add(q, l, t) => {
                mention(&mut keys, *q);
                mention(&mut keys, *t);
                trans.entry(*q).or_default().push((*l, *t));
            }
            Call::Default(q, t) => {
                mention(&mut keys, *q);
                mention(&mut keys, *t);
                dflt.insert(*q, *t);
                let e = dflt_all.entry(*q).or_default();
                if !e.contains(t) {
                    e.push(*t);
                }
            }
            Call::Final(q) => {
                mention(&mut keys, *q);
                finals.insert(*q);
            }
            Call::Build | Call::BuildUnchecked => {}
        }
    }
    let (mut conflict, mut uncovered, mut overlap, mut needless) = (false, false, false, false);
    let mut delta: HashMap<(usize, usize), usize> = HashMap::new();
    for &q in &keys {
        let tr = trans.get(&q).cloned().unwrap_or_default();
        let mut all_cov = true;
        for bk in 0..3 {
            let ts: Vec<usize> = tr.iter().filter(|&&(l, _)| LABELS[l].0 <= bk && bk <= LABELS[l].1).map(|&(_, t)| t).collect();
            if ts.len() > 1 {
                overlap = true;
                if ts.iter().any(|&t| t != ts[0]) {
                    conflict = true;
                }
            }
            if ts.is_empty() {
                all_cov = false;
                match dflt.get(&q) {
                    Some(&d) => {
                        delta.insert((q, bk), d);
                    }
                    None => uncovered = true,
                }
            } else {
                delta.insert((q, bk), ts[0]);
            }
        }
        if all_cov && dflt.contains_key(&q) {
            needless = true;
        }
    }
    let must_err = conflict || uncovered;
    let must_ok = !conflict && !uncovered && !needless;
    // ---- real code ----
    publish_case(|| {
        let mut j = calls_to_json(init, calls);
        j["__engine"] = json!("bld");
        j
    });
    let res = guarded(|| {
        let mut b = AutomatonBuilder::new(&init);
        for c in calls {
            match c {
                Call::Add(q, l, t) => {
                    b.add_transition(q, &CharSet::range(BL[LABELS[*l].0].0, BL[LABELS[*l].1].1), t);
                }
                Call::Default(q, t) => {
                    b.set_default_successor(q, t);
                }
                Call::Final(q) => {
                    b.mark_final(q);
                }
                Call::Build => {
                    let _ = b.build();
                }
                Call::BuildUnchecked => {
                    let _ = b.build_unchecked();
                }
            }
        }
        b.build()
    });
    unpublish_case();
    let class = format!("conflict={} uncovered={} overlap={} needless_default={}", conflict as u8, uncovered as u8, overlap as u8, needless as u8);
    let res = match res {
        Err(e) => return Some(format!("{}: build() {}", show_calls(init, calls), e)),
        Ok(r) => r,
    };
    rep.hist("outcomes", &format!("{} -> {}", class, match &res { Ok(_) => "Ok".to_string(), Err(e) => format!("Err({:?})", e) }));
    match res {
        Err(e) => {
            if must_ok {
                return Some(format!("{}: rejected with {:?} although the specification is complete, conflict-free and declares defaults only where characters are uncovered", show_calls(init, calls), e));
            }
            None
        }
        Ok(a) => {
            if must_err {
                return Some(format!("{}: build() returned an automaton although {}", show_calls(init, calls), if conflict { "two transitions assign different successors to one character" } else { "some state leaves characters without successor and has no default" }));
            }
            rep.inc("nontrivial");
            let n = keys.len();
            if a.num_states() != n {
                return Some(format!("{}: num_states() = {}, {} states were mentioned", show_calls(init, calls), a.num_states(), n));
            }
            if a.num_final_states() != finals.len() {
                return Some(format!("{}: num_final_states() = {}, {} states were marked", show_calls(init, calls), a.num_final_states(), finals.len()));
            }
            let fin: Vec<bool> = keys.iter().map(|q| finals.contains(q)).collect();
            let idx_of = |key: usize| keys.iter().position(|&x| x == key).unwrap();
            // alternative readings of re-declared defaults (the last declaration first)
            let mut deltas: Vec<HashMap<(usize, usize), usize>> = vec![delta.clone()];
            for (&q, vals) in dflt_all.iter() {
                if vals.len() < 2 {
                    continue;
                }
                let mut more = vec![];
                for d in &deltas {
                    for &v in vals {
                        let mut d2 = d.clone();
                        for bk in 0..3 {
                            let covered = trans.get(&q).map(|tr| tr.iter().any(|&(l, _)| LABELS[l].0 <= bk && bk <= LABELS[l].1)).unwrap_or(false);
                            if !covered {
                                d2.insert((q, bk), v);
                            }
                        }
                        if !deltas.contains(&d2) && !more.contains(&d2) {
                            more.push(d2);
                        }
                    }
                }
                deltas.extend(more);
            }
            let r = guarded(|| {
                for d in &deltas {
                    let spec = |qi: usize, c: u32| idx_of(d[&(keys[qi], block_of(c))]);
                    if let Some(pi) = find_renaming(&a, n, &spec, &PROBES, &fin) {
                        return Some(pi);
                    }
                }
                None
            });
            rep.add("states", n as u64);
            rep.add("transitions", (n * PROBES.len()) as u64);
            rep.add("impl_traces", (n * PROBES.len()) as u64);
            match r {
                Err(e) => Some(format!("{}: stepping the built automaton {}", show_calls(init, calls), e)),
                Ok(None) => Some(format!("{}: the automaton returned is not the one specified (initial state, final flags or some successor differ)", show_calls(init, calls))),
                Ok(Some(_)) => None,
            }
        }
    }
}


// ---------------------------------------------------------------------------------------------
// C13, states with many labels: state 0 gets 6 to 20 labels over arbitrary intervals (presented in several orders, with
// duplicated, nested and bridging same-target labels, with one label missing, with one conflicting label), states 1 and
// 2 are plain. The model works on the elementary segments between all end points.

#[derive(Clone, Debug)]
struct ManySpec {
    /// (lo, hi, target) in the order of the add_transition calls, all on state 0
    labels: Vec<(u32, u32, usize)>,
    dflt: Option<usize>,
    dflt_first: bool,
}

fn many_json(sp: &ManySpec) -> Value {
    json!({"engine": "bld", "__engine": "bld", "many": sp.labels.iter().map(|l| json!([l.0, l.1, l.2])).collect::<Vec<_>>(), "default": sp.dflt, "default_first": sp.dflt_first})
}
fn many_from_json(v: &Value) -> ManySpec {
    let labels = v["many"].as_array().map(|a| a.iter().map(|l| (l[0].as_u64().unwrap_or(0) as u32, l[1].as_u64().unwrap_or(0) as u32, l[2].as_u64().unwrap_or(0) as usize)).collect()).unwrap_or_default();
    ManySpec { labels, dflt: v["default"].as_u64().map(|d| d as usize), dflt_first: v["default_first"].as_bool().unwrap_or(false) }
}

fn many_case(sp: &ManySpec, rep: &mut Report) -> Option<String> {
    // ---- model: elementary segments ----
    let mut cuts: Vec<u64> = vec![0, MAX_CHAR as u64 + 1];
    for &(l, h, _) in &sp.labels {
        cuts.push(l as u64);
        cuts.push(h as u64 + 1);
    }
    cuts.sort_unstable();
    cuts.dedup();
    let (mut conflict, mut uncovered, mut all_cov) = (false, false, true);
    let mut segs: Vec<(u32, usize)> = vec![]; // (representative character, specified target)
    for w in cuts.windows(2) {
        let c = w[0] as u32;
        let ts: Vec<usize> = sp.labels.iter().filter(|l| l.0 <= c && c <= l.1).map(|l| l.2).collect();
        if ts.iter().any(|&t| t != ts[0]) {
            conflict = true;
        }
        match (ts.first(), sp.dflt) {
            (Some(&t), _) => segs.push((c, t)),
            (None, Some(d)) => {
                all_cov = false;
                segs.push((c, d));
            }
            (None, None) => {
                all_cov = false;
                uncovered = true;
            }
        }
        // the last character of the segment as well
        if let Some(&(_, t)) = segs.last() {
            if w[1] - 1 > w[0] && !uncovered {
                segs.push(((w[1] - 1) as u32, t));
            }
        }
    }
    let needless = all_cov && sp.dflt.is_some();
    let must_err = conflict || uncovered;
    let must_ok = !conflict && !uncovered && !needless;
    // ---- real code ----
    publish_case(|| many_json(sp));
    let res = guarded(|| {
        let mut b = AutomatonBuilder::new(&0usize);
        if sp.dflt_first {
            if let Some(d) = sp.dflt {
                b.set_default_successor(&0, &d);
            }
        }
        for &(l, h, t) in &sp.labels {
            b.add_transition(&0, &CharSet::range(l, h), &t);
        }
        if !sp.dflt_first {
            if let Some(d) = sp.dflt {
                b.set_default_successor(&0, &d);
            }
        }
        // states 1 and 2: plain and different from each other
        b.add_transition(&1, &CharSet::singleton(A), &2);
        b.set_default_successor(&1, &1);
        b.set_default_successor(&2, &0);
        b.mark_final(&2);
        b.build()
    });
    unpublish_case();
    let what = || format!("state 0 with {} labels {:?}{} default {:?}{}", sp.labels.len(), &sp.labels[..sp.labels.len().min(6)], if sp.labels.len() > 6 { ".." } else { "" }, sp.dflt, if sp.dflt_first { " (declared first)" } else { "" });
    let res = match res {
        Err(e) => return Some(format!("{}: build() {}", what(), e)),
        Ok(r) => r,
    };
    rep.hist("many_label_outcomes", &format!("conflict={} uncovered={} needless_default={} -> {}", conflict as u8, uncovered as u8, needless as u8, if res.is_ok() { "Ok" } else { "Err" }));
    match res {
        Err(e) => must_ok.then(|| format!("{}: rejected with {:?} although the specification is complete, conflict-free and declares a default only where characters are uncovered", what(), e)),
        Ok(a) => {
            if must_err {
                return Some(format!("{}: build() returned an automaton although {}", what(), if conflict { "two labels assign different successors to one character" } else { "some characters have no successor and there is no default" }));
            }
            if a.num_states() != 3 || a.num_final_states() != 1 {
                return Some(format!("{}: {} states ({} final), 3 states (1 final) were specified", what(), a.num_states(), a.num_final_states()));
            }
            // states were first mentioned in the order 0, targets.., so search the renaming
            let fin = [false, false, true];
            let chars: Vec<u32> = segs.iter().map(|s| s.0).chain([A, A + 1, 0, MAX_CHAR]).collect();
            let spec = |q: usize, c: u32| -> usize {
                match q {
                    0 => {
                        let ts: Vec<usize> = sp.labels.iter().filter(|l| l.0 <= c && c <= l.1).map(|l| l.2).collect();
                        ts.first().copied().or(sp.dflt).unwrap_or(0)
                    }
                    1 => {
                        if c == A {
                            2
                        } else {
                            1
                        }
                    }
                    _ => 0,
                }
            };
            rep.add("states", 3);
            rep.add("transitions", 3 * chars.len() as u64);
            rep.add("impl_traces", 3 * chars.len() as u64);
            match guarded(|| find_renaming(&a, 3, &spec, &chars, &fin)) {
                Err(e) => Some(format!("{}: stepping the built automaton {}", what(), e)),
                Ok(None) => Some(format!("{}: the automaton returned is not the one specified (some successor of state 0 differs)", what())),
                Ok(Some(_)) => None,
            }
        }
    }
}

/// the specifications with many labels: k adjacent intervals of width 3 (the last one up to MAX_CHAR) whose targets
/// cycle through 0,1,2 (or repeat in runs), in four presentation orders, each as given / with one label removed / with
/// a same-target duplicate or bridge added / with a conflicting label added, with and without default
fn many_specs() -> Vec<ManySpec> {
    let mut out = vec![];
    for k in [6usize, 9, 12, 16, 17, 20] {
        for tpat in 0..3 {
            let base: Vec<(u32, u32, usize)> = (0..k)
                .map(|i| {
                    let lo = 3 * i as u32;
                    let hi = if i + 1 == k { MAX_CHAR } else { lo + 2 };
                    let t = match tpat {
                        0 => i % 3,
                        1 => (i / 2) % 3,
                        _ => (i * 2 + 1) % 3,
                    };
                    (lo, hi, t)
                })
                .collect();
            let mut variants: Vec<Vec<(u32, u32, usize)>> = vec![base.clone()];
            for drop in [0usize, k / 2, k - 1] {
                let mut v = base.clone();
                v.remove(drop);
                variants.push(v);
            }
            for at in [1usize, k / 2, k - 2] {
                // a duplicate of one label, a label nested in it, and a bridge over it and its same-target neighbour (if any)
                let (lo, hi, t) = base[at];
                let mut v = base.clone();
                v.push((lo, hi, t));
                variants.push(v);
                let mut v = base.clone();
                v.insert(0, (lo + 1, lo + 1, t));
                variants.push(v);
                if base[at + 1].2 == t {
                    let mut v = base.clone();
                    v.push((lo + 1, base[at + 1].1.min(lo + 4), t));
                    variants.push(v);
                }
                // a conflicting label: overlaps label `at` in one character with another target
                let mut v = base.clone();
                v.push((hi, hi, (t + 1) % 3));
                variants.push(v);
                let mut v = base.clone();
                v.insert(at, (lo.saturating_sub(1), lo, (t + 2) % 3));
                variants.push(v);
            }
            for labels in variants {
                let n = labels.len();
                let orders: Vec<Vec<usize>> = vec![(0..n).collect(), (0..n).rev().collect(), (0..n).step_by(2).chain((1..n).step_by(2)).collect(), (0..n).map(|i| (i * 7 + 3) % n).collect::<std::collections::BTreeSet<_>>().into_iter().collect()];
                for (oi, ord) in orders.iter().enumerate() {
                    if oi == 3 && ord.len() != n {
                        continue;
                    }
                    let l: Vec<(u32, u32, usize)> = if oi == 3 { (0..n).map(|i| labels[(i * 7 + 3) % n]).collect() } else { ord.iter().map(|&i| labels[i]).collect() };
                    for (dflt, first) in [(None, false), (Some(1usize), false), (Some(2), true)] {
                        out.push(ManySpec { labels: l.clone(), dflt, dflt_first: first });
                    }
                }
            }
        }
    }
    out
}

/// per-state specifications: ordered sequences of <= 3 transitions over `nt` targets, a default option, and where the default is declared
#[derive(Clone)]
struct StateSpec {
    trans: Vec<(usize, usize)>,
    dflt: Option<usize>,
    first: bool,
    redeclare: Option<usize>,
}

fn state_specs(nt: usize, maxlen: usize) -> Vec<StateSpec> {
    let singles: Vec<(usize, usize)> = (0..LABELS.len()).flat_map(|l| (0..nt).map(move |t| (l, t))).collect();
    let mut seqs: Vec<Vec<(usize, usize)>> = vec![vec![]];
    let mut cur: Vec<Vec<(usize, usize)>> = vec![vec![]];
    for _ in 0..maxlen {
        let mut nx = vec![];
        for s in &cur {
            for &x in &singles {
                let mut t = s.clone();
                t.push(x);
                nx.push(t);
            }
        }
        seqs.extend(nx.iter().cloned());
        cur = nx;
    }
    let mut out = vec![];
    for s in &seqs {
        out.push(StateSpec { trans: s.clone(), dflt: None, first: false, redeclare: None });
        for d in 0..nt {
            out.push(StateSpec { trans: s.clone(), dflt: Some(d), first: false, redeclare: None });
            out.push(StateSpec { trans: s.clone(), dflt: Some(d), first: true, redeclare: None });
        }
        // a default declared first and declared again (differently) after the transitions
        if !s.is_empty() && nt >= 2 {
            out.push(StateSpec { trans: s.clone(), dflt: Some(0), first: true, redeclare: Some(1) });
            out.push(StateSpec { trans: s.clone(), dflt: Some(1), first: true, redeclare: Some(0) });
        }
    }
    out
}

fn emit(q: usize, s: &StateSpec, calls: &mut Vec<Call>) {
    if s.first {
        if let Some(d) = s.dflt {
            calls.push(Call::Default(q, d));
        }
    }
    for &(l, t) in &s.trans {
        calls.push(Call::Add(q, l, t));
    }
    if !s.first {
        if let Some(d) = s.dflt {
            calls.push(Call::Default(q, d));
        }
    }
    if let Some(d) = s.redeclare {
        calls.push(Call::Default(q, d));
    }
}

pub struct BldEngine;

const BLD_NB: usize = 96;

fn bld_params(tier: Tier) -> (usize, usize, usize) {
    // (number of states, stride over the other states' specifications, stride of the third state)
    match tier {
        Tier::Quick => (2, 61, 1),
        Tier::Thorough => (3, 401, 3001),
    }
}

impl Engine for BldEngine {
    fn name(&self) -> &'static str {
        "bld"
    }
    fn meta(&self, ctx: &Ctx) -> Meta {
        let (ns, s1, s2) = bld_params(ctx.tier);
        let n = state_specs(ns, 3).len();
        Meta {
            level: "model_checking",
            rule: "builder call sequences: per state every ordered sequence of <= 3 add_transition(label, target) calls (and every ordered sequence of exactly 4 for state 0) (labels = the 6 unions of consecutive blocks of [0,9] [10,19] [20,MAX]), a default in {none} + targets declared before or after the transitions (or declared twice), final marks, states with 6 to 20 labels (adjacent intervals in four presentation orders; as given, with a label removed, with duplicated / nested / bridging same-target labels, with a conflicting label; with and without default) checked on every elementary segment; and an intermediate build() / build_unchecked() inserted at every position of a share of the sequences (building must not change what was specified); the model records for every state and block the set of targets assigned: conflict or uncovered => build() must fail; complete, conflict-free, defaults only where needed => must succeed; otherwise either; whenever Ok the automaton must equal the specification up to a renaming fixing the initial state (every successor on 9 probe characters, final flags, counts); non-trivial = specifications accepted by build()".into(),
            assumptions: vec!["a needless default (declared although the transitions already cover the alphabet) is not classified by the statement: both outcomes are accepted".into()],
            exhaustive: true,
            space: format!("{} states; state 0 ranges over all {} per-state specifications, the other state(s) over every {}th{} one; final sets: none, {{last}}, all", ns, n, s1, if ns == 3 { format!(" / {}th", s2) } else { String::new() }),
        }
    }
    fn num_batches(&self, _ctx: &Ctx) -> usize {
        BLD_NB
    }
    fn run_batch(&self, ctx: &Ctx, batch: usize, rep: &mut Report) {
        let (ns, s1, s2) = bld_params(ctx.tier);
        let specs = state_specs(ns, 3);
        let sub1: Vec<&StateSpec> = specs.iter().step_by(s1).collect();
        let sub2: Vec<&StateSpec> = if ns == 3 { specs.iter().step_by(s2).collect() } else { vec![] };
        for (i0, sp0) in specs.iter().enumerate() {
            if i0 % BLD_NB != batch {
                continue;
            }
            beat();
            for sp1 in &sub1 {
                let thirds: Vec<Option<&StateSpec>> = if ns == 3 { sub2.iter().map(|s| Some(*s)).collect() } else { vec![None] };
                for sp2 in thirds {
                    for fmode in 0..4 {
                        // mode 3 (a state marked final twice, before and after its transitions): for a share of the specifications
                        if fmode == 3 && i0 % 3 != 0 {
                            continue;
                        }
                        let mut calls = vec![];
                        // final marks first in one mode: they mention states before their transitions
                        if fmode == 2 {
                            for q in (0..ns).rev() {
                                calls.push(Call::Final(q));
                            }
                        }
                        if fmode == 3 {
                            calls.push(Call::Final(ns - 1));
                            calls.push(Call::Final(0));
                        }
                        emit(0, sp0, &mut calls);
                        emit(1, sp1, &mut calls);
                        if let Some(s) = sp2 {
                            emit(2, s, &mut calls);
                        }
                        if fmode == 1 || fmode == 3 {
                            calls.push(Call::Final(ns - 1));
                        }
                        rep.inc("evaluations");
                        if let Some(m) = bld_case(0, &calls, rep) {
                            rep.violation("C13", "bld", calls_to_json(0, &calls), m);
                        }
                        if rep.samples.len() < 3 && calls.len() == 6 && fmode == 1 {
                            let sj = json!({"calls": show_calls(0, &calls)});
                            rep.sample(|| sj);
                        }
                        // the same calls with a build() in the middle: building must not change what was specified
                        if fmode == 0 && (i0 / BLD_NB) % 5 == 0 && calls.len() >= 2 {
                            for pos in 1..calls.len() {
                                let mut c2 = calls.clone();
                                c2.insert(pos, Call::Build);
                                rep.inc("evaluations");
                                rep.inc("sequences_with_intermediate_build");
                                if let Some(m) = bld_case(0, &c2, rep) {
                                    rep.violation("C13", "bld", calls_to_json(0, &c2), m);
                                }
                            }
                        }
                    }
                }
            }
        }
        // four transitions in one state (labels that bridge and nest need at least four), every order
        {
            let singles: Vec<(usize, usize)> = (0..LABELS.len()).flat_map(|l| (0..2usize).map(move |t| (l, t))).collect();
            let n = singles.len();
            let total = n * n * n * n;
            for code in 0..total {
                if code % BLD_NB != batch {
                    continue;
                }
                let t4 = [singles[code % n], singles[(code / n) % n], singles[(code / n / n) % n], singles[code / n / n / n]];
                for d in [None, Some(0usize), Some(1usize)] {
                    let mut calls = vec![];
                    for &(l, t) in &t4 {
                        calls.push(Call::Add(0, l, t));
                    }
                    if let Some(d) = d {
                        calls.push(Call::Default(0, d));
                    }
                    calls.push(Call::Default(1, 0));
                    rep.inc("evaluations");
                    rep.inc("four_transition_states");
                    if let Some(m) = bld_case(0, &calls, rep) {
                        rep.violation("C13", "bld", calls_to_json(0, &calls), m);
                    }
                }
            }
        }
        // complete conflict-free prefixes followed by build_unchecked(), then further calls
        if batch == 1 {
            let complete: Vec<&StateSpec> = specs.iter().filter(|s| s.trans.len() == 2 && s.dflt.is_some() && !s.first && s.redeclare.is_none()).step_by(3).collect();
            let tails: Vec<&StateSpec> = specs.iter().filter(|s| s.trans.len() <= 1).collect();
            for a in complete.iter().take(60) {
                for b in complete.iter().take(60).step_by(7) {
                    // prefix: states 0 and 1 (and 2) fully specified without overlaps?
                    let mut pre = vec![];
                    emit(0, a, &mut pre);
                    emit(1, b, &mut pre);
                    if ns == 3 {
                        emit(2, b, &mut pre);
                    }
                    let mut probe = Report::new();
                    // only valid prefixes may be passed to build_unchecked (it panics otherwise, as documented)
                    let valid = {
                        let mut ok = true;
                        for sp in [a, b] {
                            for bk in 0..3 {
                                let n = sp.trans.iter().filter(|&&(l, _)| LABELS[l].0 <= bk && bk <= LABELS[l].1).count();
                                if n > 1 {
                                    ok = false;
                                }
                            }
                            let all_cov = (0..3).all(|bk| sp.trans.iter().any(|&(l, _)| LABELS[l].0 <= bk && bk <= LABELS[l].1));
                            if all_cov {
                                ok = false; // a needless default is left alone here
                            }
                        }
                        ok
                    };
                    if !valid {
                        continue;
                    }
                    let _ = &mut probe;
                    for t in &tails {
                        for mid in [Call::BuildUnchecked, Call::Build] {
                            let mut calls = pre.clone();
                            calls.push(mid);
                            emit(0, t, &mut calls);
                            rep.inc("evaluations");
                            rep.inc("sequences_with_intermediate_build");
                            if let Some(m) = bld_case(0, &calls, rep) {
                                rep.violation("C13", "bld", calls_to_json(0, &calls), m);
                            }
                        }
                    }
                }
            }
        }
        // states with many labels
        for (i, sp) in many_specs().iter().enumerate() {
            if i % BLD_NB != batch {
                continue;
            }
            rep.inc("evaluations");
            rep.inc("many_label_states");
            if let Some(m) = many_case(sp, rep) {
                rep.violation("C13", "bld", many_json(sp), m);
            }
        }
        // a different initial key, and keys that are not 0..n (sparse, huge, in descending order of first mention)
        if batch == 0 {
            for sp0 in specs.iter().step_by(7) {
                let mut calls = vec![];
                emit(1, sp0, &mut calls);
                emit(0, &specs[3], &mut calls);
                rep.inc("evaluations");
                if let Some(m) = bld_case(1, &calls, rep) {
                    rep.violation("C13", "bld", calls_to_json(1, &calls), m);
                }
                for keymap in [[usize::MAX, 7usize, 1_000_003], [42, 41, 40], [1, 0, usize::MAX - 1]] {
                    let rn = |q: usize| keymap[q % 3];
                    let c2: Vec<Call> = calls
                        .iter()
                        .map(|c| match c {
                            Call::Add(q, l, t) => Call::Add(rn(*q), *l, rn(*t)),
                            Call::Default(q, t) => Call::Default(rn(*q), rn(*t)),
                            Call::Final(q) => Call::Final(rn(*q)),
                            other => other.clone(),
                        })
                        .collect();
                    for init in [rn(1), rn(0)] {
                        rep.inc("evaluations");
                        rep.inc("sparse_keys");
                        if let Some(m) = bld_case(init, &c2, rep) {
                            rep.violation("C13", "bld", calls_to_json(init, &c2), m);
                        }
                    }
                }
            }
        }
    }
    fn max_group(&self, _ctx: &Ctx, _batch: usize) -> usize {
        // every batch is millions of call sequences
        1
    }
    fn replay(&self, _ctx: &Ctx, c: &Value, rep: &mut Report) {
        if c.get("many").is_some() {
            rep.inc("evaluations");
            let sp = many_from_json(c);
            if let Some(m) = many_case(&sp, rep) {
                rep.violation("C13", "bld", c.clone(), m);
            }
            return;
        }
        let (init, calls) = calls_from_json(c);
        rep.inc("evaluations");
        if let Some(m) = bld_case(init, &calls, rep) {
            rep.violation("C13", "bld", c.clone(), m);
        }
    }
}

// =============================================================================================
// "fan" automata: one state without default successor whose 4-5 range labels cover the alphabet and lead to
// pairwise different states (so cleanup cannot promote a majority target to a default), among sparse states with a
// default. Reached neither by the small exhaustive layouts (their 'other' letter always repeats) nor by small regexes.

pub struct FanEngine {
    pub kind: DKind,
}

const FAN_NB: usize = 60;
/// letters: [0,a-1] a b c [c+1,MAX]; probe characters per letter
fn fan_letters() -> Vec<(u32, u32)> {
    vec![(0, A - 1), (A, A), (B, B), (B + 1, B + 1), (B + 2, MAX_CHAR)]
}
fn fan_chars() -> Vec<u32> {
    let mut v = vec![];
    for (l, h) in fan_letters() {
        v.push(l);
        if h != l {
            v.push(h);
        }
    }
    v
}

/// sparse state patterns: (character of the single explicit transition, its target, default target) relative to n and the state
fn sparse_patterns(n: usize, q: usize, fan: usize) -> Vec<(u32, usize, usize)> {
    vec![(A, 0, q), (B, (q + 1) % n, 0), (B + 1, fan, n - 1), (A, fan, fan), (B, q, (q + 2) % n)]
}

fn permutations_of(items: &[usize], len: usize) -> Vec<Vec<usize>> {
    fn rec(items: &[usize], len: usize, cur: &mut Vec<usize>, out: &mut Vec<Vec<usize>>) {
        if cur.len() == len {
            out.push(cur.clone());
            return;
        }
        for &x in items {
            if !cur.contains(&x) {
                cur.push(x);
                rec(items, len, cur, out);
                cur.pop();
            }
        }
    }
    let mut out = vec![];
    rec(items, len, &mut vec![], &mut out);
    out
}

#[derive(Clone, Debug)]
struct FanCase {
    n: usize,
    fan: usize,
    /// number of labels of the fan state: 4 (a and b merged into one label) or 5
    nlabels: usize,
    targets: Vec<usize>,
    sparse: Vec<usize>,
    fin: Vec<bool>,
    /// order in which the states are specified: identity or fan state last
    fan_last: bool,
}

fn fan_build(c: &FanCase, unchecked: bool) -> Result<Automaton, aws_smt_strings::errors::Error> {
    let letters = fan_letters();
    let mut b = AutomatonBuilder::new(&0usize);
    let mut order: Vec<usize> = (0..c.n).collect();
    if c.fan_last {
        order.retain(|&q| q != c.fan);
        order.push(c.fan);
    }
    for q in order {
        if q == c.fan {
            if c.nlabels == 5 {
                for (i, &(l, h)) in letters.iter().enumerate() {
                    b.add_transition(&q, &CharSet::range(l, h), &c.targets[i]);
                }
            } else {
                // four labels: [0,a-1] [a,b] [c] [c+1,MAX]
                let segs = [(0, A - 1), (A, B), (B + 1, B + 1), (B + 2, MAX_CHAR)];
                for (i, &(l, h)) in segs.iter().enumerate() {
                    b.add_transition(&q, &CharSet::range(l, h), &c.targets[i]);
                }
            }
        } else {
            let pats = sparse_patterns(c.n, q, c.fan);
            let (ch, t, d) = pats[c.sparse[q] % pats.len()];
            b.add_transition(&q, &CharSet::singleton(ch), &t);
            b.set_default_successor(&q, &d);
        }
        if c.fin[q] {
            b.mark_final(&q);
        }
    }
    finish_build(b, unchecked)
}

fn fan_spec(c: &FanCase, q: usize, ch: u32) -> usize {
    let letters = fan_letters();
    let li = letters.iter().position(|&(l, h)| l <= ch && ch <= h).unwrap();
    if q == c.fan {
        if c.nlabels == 5 {
            c.targets[li]
        } else {
            c.targets[[0, 1, 1, 2, 3][li]]
        }
    } else {
        let pats = sparse_patterns(c.n, q, c.fan);
        let (pc, t, d) = pats[c.sparse[q] % pats.len()];
        if ch == pc {
            t
        } else {
            d
        }
    }
}

fn fan_cases(tier: Tier, f: &mut dyn FnMut(usize, &FanCase)) {
    let mut idx = 0usize;
    let ns: Vec<usize> = if tier == Tier::Thorough { vec![5, 6] } else { vec![5] };
    for n in ns {
        let states: Vec<usize> = (0..n).collect();
        for fan in [0usize, n / 2, n - 1] {
            for nlabels in [4usize, 5] {
                if nlabels > n {
                    continue;
                }
                let perms = permutations_of(&states, nlabels);
                let pstep = if tier == Tier::Thorough { 1 } else { 3 };
                for targets in perms.iter().step_by(pstep) {
                    // sparse patterns of the other states: all combinations of 5 patterns (thorough) or a diagonal slice
                    let combos: u32 = 5u32.pow((n - 1) as u32);
                    let cstep = if tier == Tier::Thorough { 7 } else { 41 };
                    let mut code = (idx as u32 * 13) % cstep;
                    while code < combos {
                        let mut sparse = vec![0usize; n];
                        let mut c = code;
                        for q in 0..n {
                            if q != fan {
                                sparse[q] = (c % 5) as usize;
                                c /= 5;
                            }
                        }
                        for (fm, fan_last) in [(0u32, false), (1, true)] {
                            let mask: u32 = if fm == 0 { 1 << (n - 1) } else { 0b10110 & ((1 << n) - 1) };
                            let fin: Vec<bool> = (0..n).map(|q| mask >> q & 1 == 1).collect();
                            let case = FanCase { n, fan, nlabels, targets: targets.clone(), sparse: sparse.clone(), fin, fan_last };
                            f(idx, &case);
                            idx += 1;
                        }
                        code += cstep;
                    }
                }
            }
        }
    }
}

fn fan_json(c: &FanCase) -> Value {
    json!({"engine": "fan", "n": c.n, "fan": c.fan, "nlabels": c.nlabels, "targets": c.targets, "sparse": c.sparse, "final": c.fin, "fan_last": c.fan_last})
}

impl Engine for FanEngine {
    fn name(&self) -> &'static str {
        "fan"
    }
    fn meta(&self, ctx: &Ctx) -> Meta {
        let mut n = 0usize;
        fan_cases(ctx.tier, &mut |_, _| n += 1);
        Meta {
            level: "model_checking",
            rule: format!("{} automata with 5 (thorough: 6) states in which one state has no default successor and 4-5 range labels covering the alphabet that lead to pairwise different states (every injective assignment of targets; the state first, in the middle or last, specified before or after the others), the other states being sparse (one explicit transition + default, five patterns); the same checks as for the exhaustive small automata, including sequences of minimize / remove_unreachable_states", n),
            assumptions: vec!["this family is structured, not exhaustive: it exists because a state without default needs at least four pairwise different successors, which the exhaustive layouts with <= 4 states cannot provide".into()],
            exhaustive: true,
            space: "see rule".into(),
        }
    }
    fn num_batches(&self, _ctx: &Ctx) -> usize {
        FAN_NB
    }
    fn max_group(&self, _ctx: &Ctx, _batch: usize) -> usize {
        2
    }
    fn run_batch(&self, ctx: &Ctx, batch: usize, rep: &mut Report) {
        let chars = fan_chars();
        fan_cases(ctx.tier, &mut |i, c| {
            if i % FAN_NB != batch {
                return;
            }
            beat();
            rep.inc("evaluations");
            rep.inc("fan_automata");
            if self.kind == DKind::C13 {
                rep.inc("nontrivial");
            }
            publish_case(|| {
                let mut j = fan_json(c);
                j["__engine"] = json!("fan");
                j
            });
            let msgs = automaton_case(self.kind, c.n, &|unchecked| fan_build(c, unchecked), &chars, &|q, ch| fan_spec(c, q, ch), &c.fin, true, rep);
            unpublish_case();
            if !msgs.is_empty() {
                rep.violation(self.kind.id(), "fan", fan_json(c), format!("fan automaton {:?}: {}", c, msgs.join(" | ")));
            }
        });
    }
    fn replay(&self, _ctx: &Ctx, v: &Value, rep: &mut Report) {
        let us = |x: &Value| x.as_u64().unwrap_or(0) as usize;
        let arr = |x: &Value| -> Vec<usize> { x.as_array().map(|a| a.iter().map(|y| y.as_u64().unwrap_or(0) as usize).collect()).unwrap_or_default() };
        let c = FanCase { n: us(&v["n"]), fan: us(&v["fan"]), nlabels: us(&v["nlabels"]), targets: arr(&v["targets"]), sparse: arr(&v["sparse"]), fin: v["final"].as_array().map(|a| a.iter().map(|y| y.as_bool().unwrap_or(false)).collect()).unwrap_or_default(), fan_last: v["fan_last"].as_bool().unwrap_or(false) };
        if c.n < 4 || c.targets.len() != c.nlabels || c.sparse.len() != c.n || c.fin.len() != c.n {
            return;
        }
        rep.inc("evaluations");
        let chars = fan_chars();
        let msgs = automaton_case(self.kind, c.n, &|unchecked| fan_build(&c, unchecked), &chars, &|q, ch| fan_spec(&c, q, ch), &c.fin, true, rep);
        if !msgs.is_empty() {
            rep.violation(self.kind.id(), "fan", v.clone(), msgs.join(" | "));
        }
    }
    fn hang_is_violation(&self, _p: &str) -> bool {
        // build, minimize, remove_unreachable_states, compile_successors: not returning is not "producing"
        true
    }
}

// =============================================================================================
// "ring" automata: 17 to 100 states with arithmetic transition functions (a: +1, b: affine map, other: stay / sink /
// reset) and periodic final sets, so that many states are equivalent and blocks of the refinement are large. The
// exhaustive families stop at 4-5 states; size-dependent code in the minimizer needs these.

pub struct RingEngine {
    pub kind: DKind,
}

#[derive(Clone, Debug)]
struct RingCase {
    n: usize,
    bm: usize,
    bc: usize,
    other: usize, // 0: stay, 1: go to the last state, 2: go to state 0
    d: usize,
    extra: usize, // number of additional unreachable copies of state 1
    /// 0: final iff q mod d == 0; 1: final iff q < d
    fkind: usize,
}

fn ring_delta(c: &RingCase, q: usize, letter: usize) -> usize {
    let n = c.n;
    if q >= n {
        // unreachable copies behave like state 1
        return ring_delta(c, 1, letter);
    }
    match letter {
        0 => (q + 1) % n,
        1 => (q * c.bm + c.bc) % n,
        _ => match c.other {
            0 => q,
            1 => n - 1,
            2 => 0,
            // two-letter automata: every character other than 'a' follows the affine map
            _ => (q * c.bm + c.bc) % n,
        },
    }
}
fn ring_final(c: &RingCase, q: usize) -> bool {
    let q = if q >= c.n { 1 } else { q };
    if c.fkind == 0 {
        q % c.d == 0
    } else {
        q < c.d
    }
}
fn ring_build(c: &RingCase, unchecked: bool) -> Result<Automaton, aws_smt_strings::errors::Error> {
    let mut b = AutomatonBuilder::new(&0usize);
    let total = c.n + c.extra;
    for q in 0..total {
        b.add_transition(&q, &CharSet::singleton(A), &ring_delta(c, q, 0));
        b.add_transition(&q, &CharSet::singleton(B), &ring_delta(c, q, 1));
        b.set_default_successor(&q, &ring_delta(c, q, 2));
        if ring_final(c, q) {
            b.mark_final(&q);
        }
    }
    finish_build(b, unchecked)
}
fn ring_cases(tier: Tier) -> Vec<RingCase> {
    let ns: Vec<usize> = if tier == Tier::Thorough { vec![17, 18, 19, 24, 31, 32, 33, 34, 40, 48, 63, 64, 65, 100, 128, 200] } else { vec![17, 18, 24, 33, 34, 40, 64, 65, 100] };
    let mut v = vec![];
    for &n in &ns {
        for (bm, bc) in [(1usize, 0usize), (2, 0), (0, 0), (1, 2), (3, 1), (0, 5)] {
            for other in 0..3 {
                for d in [2usize, 3, 5, 7, n] {
                    for extra in [0usize, 2] {
                        if tier == Tier::Quick && (v.len() % 2 == 1) {
                            v.push(RingCase { n: 0, bm, bc, other, d, extra, fkind: 0 });
                            continue;
                        }
                        v.push(RingCase { n, bm, bc, other, d, extra, fkind: 0 });
                    }
                }
            }
        }
    }
    v.retain(|c| c.n > 0);
    // small rings: every affine map q -> m*q + c mod n for the letter b, 5 to 12 (thorough 20) states
    let nmax = if tier == Tier::Thorough { 20 } else { 12 };
    for n in 5..=nmax {
        for bm in 0..n {
            for bc in 0..n {
                for other in 0..3 {
                    for (fkind, d) in [(0usize, 2usize), (0, 3), (0, n), (1, 1), (1, n / 2), (1, n - 1)] {
                        v.push(RingCase { n, bm, bc, other, d, extra: 0, fkind });
                    }
                }
            }
        }
    }
    // two letters only (a: +1, everything else: the affine map), up to 16 (thorough 24) states
    let nmax2 = if tier == Tier::Thorough { 24 } else { 16 };
    for n in 5..=nmax2 {
        for bm in 0..n {
            for bc in 0..n {
                for (fkind, d) in [(0usize, 2usize), (0, 3), (0, n), (1, 1), (1, n / 2), (1, n - 1)] {
                    v.push(RingCase { n, bm, bc, other: 3, d, extra: 0, fkind });
                }
            }
        }
    }
    v
}
const RING_NB: usize = 48;

impl Engine for RingEngine {
    fn name(&self) -> &'static str {
        "ring"
    }
    fn meta(&self, ctx: &Ctx) -> Meta {
        Meta {
            level: "model_checking",
            rule: format!("{} automata with 17 to 100 (thorough 200) states: a -> q+1 mod n, b -> an affine map mod n (6 maps, most of them not injective), other -> stay / last state / state 0, final iff q mod d == 0 for d in {{2,3,5,7,n}}, with and without two unreachable copies of a state; plus all automata with 5 to 12 (thorough 20) states whose b-map is ANY affine map q -> m*q+c mod n, with six final-set shapes, over three letters and over two letters (up to 16, thorough 24, states); many states are equivalent, so the refinement works on large blocks; same checks as for the exhaustive small automata (expected size by own Moore refinement), including sequences of minimize / remove_unreachable_states", ring_cases(ctx.tier).len()),
            assumptions: vec!["structured, not exhaustive: added because size-dependent code (blocks of more than 16 or 32 states) is out of reach of the exhaustive families".into()],
            exhaustive: true,
            space: "see rule".into(),
        }
    }
    fn num_batches(&self, _ctx: &Ctx) -> usize {
        RING_NB
    }
    fn max_group(&self, _ctx: &Ctx, _batch: usize) -> usize {
        2
    }
    fn run_batch(&self, ctx: &Ctx, batch: usize, rep: &mut Report) {
        let chars = all_chars_of(3);
        let lay = layout(3);
        for (i, c) in ring_cases(ctx.tier).iter().enumerate() {
            if i % RING_NB != batch {
                continue;
            }
            beat();
            rep.inc("evaluations");
            rep.inc("ring_automata");
            if self.kind == DKind::C13 {
                rep.inc("nontrivial");
            }
            let total = c.n + c.extra;
            let fin: Vec<bool> = (0..total).map(|q| ring_final(c, q)).collect();
            let spec = |q: usize, ch: u32| ring_delta(c, q, lay.iter().position(|l| l.contains(&ch)).unwrap());
            // renaming search is only feasible for small automata: C13 on rings checks acceptance and delta through the
            // identity numbering (states are mentioned in order 0..n)
            publish_case(|| json!({"__engine": "ring", "engine": "ring", "n": c.n, "bm": c.bm, "bc": c.bc, "other": c.other, "d": c.d, "extra": c.extra, "fkind": c.fkind}));
            let msgs = if self.kind == DKind::C13 { ring_c13(c, &chars, &spec, &fin) } else { automaton_case(self.kind, total, &|unchecked| ring_build(c, unchecked), &chars, &spec, &fin, true, rep) };
            unpublish_case();
            if !msgs.is_empty() {
                rep.violation(self.kind.id(), "ring", json!({"engine": "ring", "n": c.n, "bm": c.bm, "bc": c.bc, "other": c.other, "d": c.d, "extra": c.extra, "fkind": c.fkind}), format!("ring automaton {:?}: {}", c, msgs.join(" | ")));
            }
        }
    }
    fn replay(&self, _ctx: &Ctx, v: &Value, rep: &mut Report) {
        let us = |x: &Value| x.as_u64().unwrap_or(0) as usize;
        let c = RingCase { n: us(&v["n"]), bm: us(&v["bm"]), bc: us(&v["bc"]), other: us(&v["other"]), d: us(&v["d"]).max(1), extra: us(&v["extra"]), fkind: us(&v["fkind"]) };
        if c.n < 2 {
            return;
        }
        rep.inc("evaluations");
        let chars = all_chars_of(3);
        let lay = layout(3);
        let total = c.n + c.extra;
        let fin: Vec<bool> = (0..total).map(|q| ring_final(&c, q)).collect();
        let spec = |q: usize, ch: u32| ring_delta(&c, q, lay.iter().position(|l| l.contains(&ch)).unwrap());
        let msgs = if self.kind == DKind::C13 { ring_c13(&c, &chars, &spec, &fin) } else { automaton_case(self.kind, total, &|unchecked| ring_build(&c, unchecked), &chars, &spec, &fin, true, rep) };
        if !msgs.is_empty() {
            rep.violation(self.kind.id(), "ring", v.clone(), msgs.join(" | "));
        }
    }
    fn hang_is_violation(&self, _p: &str) -> bool {
        // build, minimize, remove_unreachable_states, compile_successors: not returning is not "producing"
        true
    }
}

/// C13 on a large automaton: accepted, right counts, and the specified transition function up to the renaming that is
/// forced by walking from the initial state (unreachable states are matched by behaviour)
fn ring_c13(c: &RingCase, chars: &[u32], spec: &dyn Fn(usize, u32) -> usize, fin: &[bool]) -> Vec<String> {
    let mut msgs = vec![];
    let a = match guarded(|| ring_build(c, false)) {
        Err(e) => return vec![format!("build() {}", e)],
        Ok(Err(e)) => return vec![format!("build() rejected a complete conflict-free specification with {:?}", e)],
        Ok(Ok(a)) => a,
    };
    let total = c.n + c.extra;
    if a.num_states() != total {
        msgs.push(format!("num_states() = {}, {} states were specified", a.num_states(), total));
        return msgs;
    }
    if a.num_final_states() != fin.iter().filter(|&&f| f).count() {
        msgs.push("num_final_states() differs from the number of states marked".into());
    }
    // forced renaming on the reachable part
    let mut pi: Vec<Option<usize>> = vec![None; total];
    pi[0] = Some(a.initial_state().id());
    let mut stack = vec![0usize];
    while let Some(q) = stack.pop() {
        let s = a.state(pi[q].unwrap());
        if s.is_final() != fin[q] {
            msgs.push(format!("state {}: final flag differs from the specification", q));
            return msgs;
        }
        for &ch in chars {
            let t = spec(q, ch);
            let img = a.next(s, ch).id();
            match pi[t] {
                None => {
                    pi[t] = Some(img);
                    stack.push(t);
                }
                Some(x) => {
                    if x != img {
                        msgs.push(format!("state {} on character {}: successor {} but the specification says the state numbered {}", q, ch, img, x));
                        return msgs;
                    }
                }
            }
        }
    }
    msgs
}

// =============================================================================================
// "wide" automata: 5 to 12 (20) states over 4 to 9 letters. Letter 0 steps around a ring, every other letter follows
// one of six simple maps. The refinement of such an automaton proceeds one split at a time and every split queues one
// splitter per letter, so the number of refinement rounds grows with letters x states (the exhaustive families have at
// most 4 letters and 3-5 states, the rings 3 letters).

pub struct WideEngine {
    pub kind: DKind,
}

#[derive(Clone, Debug)]
struct WideCase {
    n: usize,
    letters: usize,
    /// map code of letters 1..letters-1
    maps: Vec<usize>,
    d: usize,
    fkind: usize,
    /// which letter steps around the ring: 0 = the first single character, 1 = the last letter ('every other
    /// character', the default successor), 2 = a letter in the middle
    ring_pos: usize,
}

const WIDE_NB: usize = 32;
const WIDE_MAPS: usize = 6;

fn wide_delta(c: &WideCase, q: usize, letter: usize) -> usize {
    let n = c.n;
    let ring_letter = match c.ring_pos {
        0 => 0,
        1 => c.letters - 1,
        _ => c.letters / 2,
    };
    if letter == ring_letter {
        return (q + 1) % n;
    }
    // the other letters take the maps in order
    let mi = if letter < ring_letter { letter } else { letter - 1 };
    match c.maps[mi] {
        0 => q,
        1 => 0,
        2 => (q + 2) % n,
        3 => n - 1 - q,
        4 => (2 * q) % n,
        _ => n - 1,
    }
}
fn wide_final(c: &WideCase, q: usize) -> bool {
    if c.fkind == 0 {
        q % c.d == 0
    } else {
        q < c.d
    }
}
/// letter i < letters-1 is the single character A+i; the last letter is every other character (the default)
fn wide_letter_of(c: &WideCase, ch: u32) -> usize {
    if ch >= A && ((ch - A) as usize) < c.letters - 1 {
        (ch - A) as usize
    } else {
        c.letters - 1
    }
}
fn wide_chars(c: &WideCase) -> Vec<u32> {
    let mut v: Vec<u32> = (0..c.letters as u32 - 1).map(|i| A + i).collect();
    v.extend([0, A - 1, A + c.letters as u32 - 1, MAX_CHAR]);
    v
}
fn wide_build(c: &WideCase, unchecked: bool) -> Result<Automaton, aws_smt_strings::errors::Error> {
    let mut b = AutomatonBuilder::new(&0usize);
    for q in 0..c.n {
        for l in 0..c.letters - 1 {
            b.add_transition(&q, &CharSet::singleton(A + l as u32), &wide_delta(c, q, l));
        }
        b.set_default_successor(&q, &wide_delta(c, q, c.letters - 1));
        if wide_final(c, q) {
            b.mark_final(&q);
        }
    }
    finish_build(b, unchecked)
}
fn wide_cases(tier: Tier, kind: DKind) -> Vec<WideCase> {
    let ns: Vec<usize> = if kind == DKind::C13 { vec![5, 6] } else if tier == Tier::Thorough { (5..=20).collect() } else { (5..=12).collect() };
    let mut v = vec![];
    for &n in &ns {
        for letters in [4usize, 5, 6, 7, 9] {
            let mut patterns: Vec<Vec<usize>> = vec![];
            for m in 0..WIDE_MAPS {
                patterns.push(vec![m; letters - 1]);
                patterns.push((0..letters - 1).map(|i| (i + m) % WIDE_MAPS).collect());
            }
            for maps in patterns {
                for (d, fkind) in [(2usize, 0usize), (3, 0), (n, 0), (2, 1)] {
                    for ring_pos in 0..3 {
                        v.push(WideCase { n, letters, maps: maps.clone(), d, fkind, ring_pos });
                    }
                }
            }
        }
    }
    v
}
fn wide_json(c: &WideCase) -> Value {
    json!({"engine": "wide", "__engine": "wide", "n": c.n, "letters": c.letters, "maps": c.maps, "d": c.d, "fkind": c.fkind, "ring_pos": c.ring_pos})
}

impl WideEngine {
    fn run_case(&self, c: &WideCase, rep: &mut Report) -> Vec<String> {
        let chars = wide_chars(c);
        let fin: Vec<bool> = (0..c.n).map(|q| wide_final(c, q)).collect();
        let spec = |q: usize, ch: u32| wide_delta(c, q, wide_letter_of(c, ch));
        automaton_case(self.kind, c.n, &|unchecked| wide_build(c, unchecked), &chars, &spec, &fin, true, rep)
    }
}

impl Engine for WideEngine {
    fn name(&self) -> &'static str {
        "wide"
    }
    fn meta(&self, ctx: &Ctx) -> Meta {
        let n = wide_cases(ctx.tier, self.kind).len();
        Meta {
            level: "model_checking",
            rule: format!("{} 'wide' automata (5 to 12, thorough 20, states; 4 to 9 letters: one letter (the first, a middle one or the last = default) steps around a ring, each other letter follows one of 6 maps - stay, reset, +2, reflect, doubling, last - either all the same or staggered; 4 final sets) under the same oracle as the exhaustive families", n),
            assumptions: vec![],
            exhaustive: true,
            space: format!("{} automata", n),
        }
    }
    fn num_batches(&self, _ctx: &Ctx) -> usize {
        WIDE_NB
    }
    fn run_batch(&self, ctx: &Ctx, batch: usize, rep: &mut Report) {
        for (i, c) in wide_cases(ctx.tier, self.kind).iter().enumerate() {
            if i % WIDE_NB != batch {
                continue;
            }
            beat();
            rep.inc("evaluations");
            rep.inc("wide_automata");
            if self.kind == DKind::C13 {
                rep.inc("nontrivial");
            }
            publish_case(|| wide_json(c));
            let msgs = self.run_case(c, rep);
            unpublish_case();
            if !msgs.is_empty() {
                rep.violation(self.kind.id(), "wide", wide_json(c), format!("wide automaton {:?}: {}", c, msgs.join(" | ")));
            }
        }
    }
    fn replay(&self, _ctx: &Ctx, v: &Value, rep: &mut Report) {
        let us = |x: &Value| x.as_u64().unwrap_or(0) as usize;
        let maps: Vec<usize> = v["maps"].as_array().map(|a| a.iter().map(|y| y.as_u64().unwrap_or(0) as usize).collect()).unwrap_or_default();
        let c = WideCase { n: us(&v["n"]), letters: us(&v["letters"]), maps, d: us(&v["d"]).max(1), fkind: us(&v["fkind"]), ring_pos: us(&v["ring_pos"]) };
        if c.n < 2 || c.letters < 2 || c.maps.len() != c.letters - 1 {
            return;
        }
        rep.inc("evaluations");
        let msgs = self.run_case(&c, rep);
        if !msgs.is_empty() {
            rep.violation(self.kind.id(), "wide", v.clone(), msgs.join(" | "));
        }
    }
    fn hang_is_violation(&self, _p: &str) -> bool {
        true
    }
    fn max_group(&self, _ctx: &Ctx, _batch: usize) -> usize {
        4
    }
}
