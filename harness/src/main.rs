//! smtverif: bounded exhaustive exploration of aws-smt-strings against reference models.
//!
//!   smtverif <PROPERTY> <quick|thorough>        run the check of one property (coordinator)
//!   smtverif replay <path> [--quiet]             re-execute one recorded case, no explorer involved
//!   smtverif --worker <PROPERTY> <tier> <seed> <lo> <hi>     (internal) run batches lo..hi

mod autos;
mod csets;
mod hist;
mod infra;
mod pool;
mod prog;
mod refdfa;
mod regex;
mod strs;
mod universe;

use infra::*;

fn engine_for(prop: &str) -> Option<Box<dyn Engine>> {
    match prop {
        "C04" => return Some(Box::new(Composite { parts: vec![Box::new(autos::DfaEngine { kind: autos::DKind::C04 }), Box::new(autos::FanEngine { kind: autos::DKind::C04 }), Box::new(autos::RingEngine { kind: autos::DKind::C04 }), Box::new(autos::WideEngine { kind: autos::DKind::C04 }), Box::new(regex::RegexEngine { kind: regex::Kind::C04 })] })),
        "C14" => return Some(Box::new(Composite { parts: vec![Box::new(autos::DfaEngine { kind: autos::DKind::C14 }), Box::new(autos::FanEngine { kind: autos::DKind::C14 }), Box::new(autos::RingEngine { kind: autos::DKind::C14 }), Box::new(autos::WideEngine { kind: autos::DKind::C14 }), Box::new(regex::RegexEngine { kind: regex::Kind::C14 })] })),
        "C13" => return Some(Box::new(Composite { parts: vec![Box::new(autos::BldEngine), Box::new(autos::DfaEngine { kind: autos::DKind::C13 }), Box::new(autos::FanEngine { kind: autos::DKind::C13 }), Box::new(autos::RingEngine { kind: autos::DKind::C13 }), Box::new(autos::WideEngine { kind: autos::DKind::C13 })] })),
        _ => {}
    }
    if let Some(k) = regex::Kind::from_id(prop) {
        return Some(Box::new(regex::RegexEngine { kind: k }));
    }
    match prop {
        "C06" => Some(Box::new(strs::c06_engine())),
        "C08" => Some(Box::new(strs::c08_engine())),
        "C09" => Some(Box::new(strs::c09_engine())),
        "C17" => Some(Box::new(strs::c17_engine())),
        "C07" => Some(Box::new(hist::C07Engine)),
        "C10" => Some(Box::new(hist::C10Engine)),
        "C16" => Some(Box::new(hist::C16Engine)),
        "C11" => Some(Box::new(csets::c11_engine())),
        "C12" => Some(Box::new(csets::c12_engine())),
        "C15" => Some(Box::new(csets::c15_engine())),
        "C20" => Some(Box::new(csets::c20_engine())),
        _ => None,
    }
}

fn parse_tier(s: &str) -> Option<Tier> {
    match s {
        "quick" => Some(Tier::Quick),
        "thorough" => Some(Tier::Thorough),
        _ => None,
    }
}

fn main() {
    let args: Vec<String> = std::env::args().collect();
    if args.len() >= 3 && args[1] == "replay" {
        let quiet = args.iter().any(|a| a == "--quiet");
        std::process::exit(replay_main(&engine_for, &args[2], quiet));
    }
    if args.len() >= 7 && args[1] == "--worker" {
        let tier = parse_tier(&args[3]).expect("tier");
        let ctx = Ctx { prop: args[2].clone(), tier, seed: args[4].parse().unwrap_or(0) };
        let engine = engine_for(&ctx.prop).expect("engine");
        worker_main(engine.as_ref(), &ctx, args[5].parse().unwrap(), args[6].parse().unwrap());
        return;
    }
    if args.len() < 3 {
        eprintln!("usage: smtverif <PROPERTY> <quick|thorough> | smtverif replay <path>");
        std::process::exit(2);
    }
    let tier = match parse_tier(&args[2]) {
        Some(t) => t,
        None => {
            eprintln!("unknown tier {}", args[2]);
            std::process::exit(2);
        }
    };
    let seed: u64 = std::env::var("VERIF_SEED").ok().and_then(|s| s.parse::<i64>().ok()).map(|x| x.unsigned_abs()).unwrap_or(0);
    let ctx = Ctx { prop: args[1].clone(), tier, seed };
    let engine = match engine_for(&ctx.prop) {
        Some(e) => e,
        None => {
            eprintln!("no check for property {}", ctx.prop);
            std::process::exit(2);
        }
    };
    install_quiet_panic_hook();
    let rr = run_engine(engine.as_ref(), &ctx);
    std::process::exit(finish(engine.as_ref(), &ctx, rr));
}
