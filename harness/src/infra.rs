//! Shared machinery: reports, worker subprocesses, watchdog, evidence and replay files.
//!
//! Every check is an `Engine`: a deterministic enumeration of cases split into *batches*.
//! The coordinator runs each batch in a short-lived worker subprocess (bounded memory: the
//! library leaks every term it creates; isolation: an abort or a hang of the code under test
//! kills one worker, not the run) and merges the workers' reports in batch order, so that
//! the first reported counterexample is the one with the smallest index.

use serde_json::{json, Map, Value};
use std::collections::BTreeMap;
use std::io::Write;
use std::path::{Path, PathBuf};
use std::sync::atomic::{AtomicBool, AtomicU64, AtomicUsize, Ordering};
use std::sync::Mutex;
use std::time::{Duration, Instant};

#[derive(Clone, Copy, PartialEq, Eq, Debug)]
pub enum Tier {
    Quick,
    Thorough,
}

impl Tier {
    pub fn name(&self) -> &'static str {
        match self {
            Tier::Quick => "quick",
            Tier::Thorough => "thorough",
        }
    }
    pub fn thorough(&self) -> bool {
        *self == Tier::Thorough
    }
}

#[derive(Clone, Debug)]
pub struct Ctx {
    pub prop: String,
    pub tier: Tier,
    pub seed: u64,
}

pub fn profile_name() -> &'static str {
    if cfg!(debug_assertions) {
        "dev"
    } else {
        "release"
    }
}

pub const MAX_VIOL_PER_BATCH: usize = 8;
pub const MAX_SAMPLES: usize = 8;

/// What one batch (or the merge of several) observed.
#[derive(Default, Debug, Clone)]
pub struct Report {
    pub counters: BTreeMap<String, u64>,
    pub hist: BTreeMap<String, BTreeMap<String, u64>>,
    pub maxima: BTreeMap<String, u64>,
    pub samples: Vec<Value>,
    pub violations: Vec<Value>,
    pub notes: Vec<String>,
}

impl Report {
    pub fn new() -> Report {
        Report::default()
    }
    pub fn add(&mut self, key: &str, n: u64) {
        *self.counters.entry(key.to_string()).or_insert(0) += n;
    }
    pub fn inc(&mut self, key: &str) {
        self.add(key, 1)
    }
    pub fn get(&self, key: &str) -> u64 {
        self.counters.get(key).copied().unwrap_or(0)
    }
    pub fn hist(&mut self, h: &str, k: &str) {
        *self.hist.entry(h.to_string()).or_default().entry(k.to_string()).or_insert(0) += 1;
    }
    pub fn hist_n(&mut self, h: &str, k: &str, n: u64) {
        *self.hist.entry(h.to_string()).or_default().entry(k.to_string()).or_insert(0) += n;
    }
    pub fn max(&mut self, key: &str, v: u64) {
        let e = self.maxima.entry(key.to_string()).or_insert(0);
        if v > *e {
            *e = v;
        }
    }
    pub fn sample(&mut self, v: impl FnOnce() -> Value) {
        if self.samples.len() < MAX_SAMPLES {
            self.samples.push(v());
        }
    }
    pub fn note(&mut self, s: String) {
        if self.notes.len() < 20 && !self.notes.contains(&s) {
            self.notes.push(s);
        }
    }
    /// Record a violation: `case` must be enough to re-execute it with `Engine::replay`.
    pub fn violation(&mut self, prop: &str, engine: &str, case: Value, message: String) {
        self.inc("violations");
        self.hist("violations_by_property", prop);
        if self.violations.len() < MAX_VIOL_PER_BATCH {
            self.violations.push(json!({
                "property": prop, "engine": engine, "case": case, "message": message,
                "profile": profile_name(),
            }));
        }
    }
    pub fn merge(&mut self, o: Report) {
        for (k, v) in o.counters {
            *self.counters.entry(k).or_insert(0) += v;
        }
        for (h, m) in o.hist {
            let e = self.hist.entry(h).or_default();
            for (k, v) in m {
                *e.entry(k).or_insert(0) += v;
            }
        }
        for (k, v) in o.maxima {
            self.max(&k, v);
        }
        for s in o.samples {
            if self.samples.len() < MAX_SAMPLES {
                self.samples.push(s);
            }
        }
        for v in o.violations {
            if self.violations.len() < 40 {
                self.violations.push(v);
            }
        }
        for n in o.notes {
            self.note(n);
        }
    }
    pub fn to_json(&self) -> Value {
        json!({
            "counters": self.counters, "hist": self.hist, "maxima": self.maxima,
            "samples": self.samples, "violations": self.violations, "notes": self.notes,
        })
    }
    pub fn from_json(v: &Value) -> Report {
        let mut r = Report::new();
        if let Some(m) = v["counters"].as_object() {
            for (k, x) in m {
                r.counters.insert(k.clone(), x.as_u64().unwrap_or(0));
            }
        }
        if let Some(m) = v["maxima"].as_object() {
            for (k, x) in m {
                r.maxima.insert(k.clone(), x.as_u64().unwrap_or(0));
            }
        }
        if let Some(m) = v["hist"].as_object() {
            for (h, mm) in m {
                let e = r.hist.entry(h.clone()).or_default();
                if let Some(mm) = mm.as_object() {
                    for (k, x) in mm {
                        e.insert(k.clone(), x.as_u64().unwrap_or(0));
                    }
                }
            }
        }
        if let Some(a) = v["samples"].as_array() {
            r.samples = a.clone();
        }
        if let Some(a) = v["violations"].as_array() {
            r.violations = a.clone();
        }
        if let Some(a) = v["notes"].as_array() {
            r.notes = a.iter().filter_map(|x| x.as_str().map(|s| s.to_string())).collect();
        }
        r
    }
}

/// Static description of a check, used for the evidence file.
pub struct Meta {
    pub level: &'static str,
    pub rule: String,
    pub assumptions: Vec<String>,
    /// set when the enumeration is a complete finite space (and no cap was hit)
    pub exhaustive: bool,
    pub space: String,
}

pub trait Engine {
    fn name(&self) -> &'static str;
    fn meta(&self, ctx: &Ctx) -> Meta;
    fn num_batches(&self, ctx: &Ctx) -> usize;
    fn run_batch(&self, ctx: &Ctx, batch: usize, rep: &mut Report);
    /// Re-execute one recorded case (no explorer involved); violations are pushed to `rep`.
    fn replay(&self, ctx: &Ctx, case: &Value, rep: &mut Report);
    /// Does the property's statement include termination / success, so that a watchdog
    /// timeout or an abort of the code under test is a violation rather than a machinery failure?
    fn hang_is_violation(&self, _prop: &str) -> bool {
        false
    }
    /// upper bound on the number of batches a worker process takes in one go, for the group that starts at
    /// `batch` (heavy batches get small groups so that the load is balanced over the cores)
    fn max_group(&self, _ctx: &Ctx, _batch: usize) -> usize {
        usize::MAX
    }
}

// ---------------------------------------------------------------------------------------------
// panic capture

static PANIC_MSG: Mutex<String> = Mutex::new(String::new());

pub fn install_quiet_panic_hook() {
    std::panic::set_hook(Box::new(|info| {
        let mut s = String::new();
        if let Some(m) = info.payload().downcast_ref::<&str>() {
            s.push_str(m);
        } else if let Some(m) = info.payload().downcast_ref::<String>() {
            s.push_str(m);
        } else {
            s.push_str("<non-string panic>");
        }
        if let Some(l) = info.location() {
            s.push_str(&format!(" at {}:{}", l.file(), l.line()));
        }
        if let Ok(mut g) = PANIC_MSG.lock() {
            *g = s;
        }
    }));
}

/// Run `f`, converting a panic of the code under test into `Err(message)`.
pub fn guarded<T>(f: impl FnOnce() -> T) -> Result<T, String> {
    match std::panic::catch_unwind(std::panic::AssertUnwindSafe(f)) {
        Ok(v) => Ok(v),
        Err(_) => {
            let m = PANIC_MSG.lock().map(|g| g.clone()).unwrap_or_default();
            Err(format!("panic: {}", m))
        }
    }
}

// ---------------------------------------------------------------------------------------------
// watchdog (inside a worker)

static HEARTBEAT: AtomicU64 = AtomicU64::new(0);
static CUR_BATCH: AtomicUsize = AtomicUsize::new(0);
static CUR_CASE: Mutex<Option<Value>> = Mutex::new(None);
/// A case is declared hanging when the worker has burnt this much CPU time without a heartbeat. CPU time, not wall
/// time: on a loaded machine a healthy worker may be descheduled for long, and that must never look like a hang.
pub const CASE_CPU_LIMIT_S: f64 = 40.0;
/// wall-clock backstop (reported as a machinery failure, never as a verdict)
pub const CASE_WALL_LIMIT_S: u64 = 1800;

/// Called by engines at the start of every case and inside long machinery phases (cheap: one atomic increment).
#[inline]
pub fn beat() {
    HEARTBEAT.fetch_add(1, Ordering::Relaxed);
}

/// Called by engines when they start executing the code under test on a case, so that a hang can be turned into
/// a replay record; `clear_current_case` marks machinery phases (a hang there is never a verdict).
pub fn set_current_case(v: Value) {
    if PUBLISH_ALL.load(Ordering::Relaxed) && !REPLAYING.load(Ordering::Relaxed) {
        // the re-run that localises a hang or a crash: the case is also written out before the code under test is
        // called, so that the coordinator knows it even if the process is aborted (allocation failure, stack overflow)
        let stdout = std::io::stdout();
        let mut l = stdout.lock();
        let _ = writeln!(l, "CASE {}", v);
        let _ = l.flush();
    }
    if let Ok(mut g) = CUR_CASE.lock() {
        *g = Some(v);
    }
}
pub fn clear_current_case() {
    if PUBLISH_ALL.load(Ordering::Relaxed) && !REPLAYING.load(Ordering::Relaxed) {
        let stdout = std::io::stdout();
        let mut l = stdout.lock();
        let _ = writeln!(l, "CASE null");
        let _ = l.flush();
    }
    if let Ok(mut g) = CUR_CASE.lock() {
        *g = None;
    }
}

/// Engines whose cases are too small to publish each of them (millions per second) call `publish_case` instead:
/// it does nothing in a normal run. When a worker hangs outside a published case, the coordinator re-runs the
/// same group of batches once with `VERIF_PUBLISH=1`; then every case is published before the code under test is
/// called, the hang recurs, and the watchdog can name the case.
static PUBLISH_ALL: AtomicBool = AtomicBool::new(false);
static REPLAYING: AtomicBool = AtomicBool::new(false);
#[inline]
pub fn publish_case(f: impl FnOnce() -> Value) {
    if PUBLISH_ALL.load(Ordering::Relaxed) {
        set_current_case(f());
    }
}
/// end of the code under test for the published case (the oracle's own work follows)
#[inline]
pub fn unpublish_case() {
    if PUBLISH_ALL.load(Ordering::Relaxed) {
        clear_current_case();
    }
}

/// CPU seconds (user + system) consumed by this process so far
fn cpu_seconds() -> f64 {
    if let Ok(s) = std::fs::read_to_string("/proc/self/stat") {
        // fields after the command name (which may contain spaces): skip to the last ')'
        if let Some(p) = s.rfind(')') {
            let f: Vec<&str> = s[p + 1..].split_whitespace().collect();
            if f.len() > 13 {
                let ut: f64 = f[11].parse().unwrap_or(0.0);
                let st: f64 = f[12].parse().unwrap_or(0.0);
                return (ut + st) / 100.0;
            }
        }
    }
    -1.0
}

fn start_watchdog() {
    std::thread::spawn(|| {
        let mut last = HEARTBEAT.load(Ordering::Relaxed);
        let mut since = Instant::now();
        let mut cpu_at = cpu_seconds();
        loop {
            std::thread::sleep(Duration::from_millis(500));
            let now = HEARTBEAT.load(Ordering::Relaxed);
            if now != last {
                last = now;
                since = Instant::now();
                cpu_at = cpu_seconds();
                continue;
            }
            let cpu = cpu_seconds();
            let burnt = if cpu >= 0.0 && cpu_at >= 0.0 { cpu - cpu_at } else { since.elapsed().as_secs_f64() / 4.0 };
            let wall = since.elapsed().as_secs();
            if burnt >= CASE_CPU_LIMIT_S || wall >= CASE_WALL_LIMIT_S {
                let case = CUR_CASE.lock().ok().and_then(|g| g.clone()).unwrap_or(Value::Null);
                let out = json!({"hang": true, "batch": CUR_BATCH.load(Ordering::Relaxed), "heartbeat": now, "case": case,
                                 "cpu_seconds_without_heartbeat": burnt, "wall_seconds_without_heartbeat": wall,
                                 "by": if burnt >= CASE_CPU_LIMIT_S { "cpu" } else { "wall" }});
                println!("HANG {}", out);
                let _ = std::io::stdout().flush();
                std::process::exit(3);
            }
        }
    });
}

// ---------------------------------------------------------------------------------------------
// worker entry point:  smtverif --worker <prop> <tier> <seed> <lo> <hi>

pub fn worker_main(engine: &dyn Engine, ctx: &Ctx, lo: usize, hi: usize) {
    install_quiet_panic_hook();
    if std::env::var("VERIF_PUBLISH").map(|v| v == "1").unwrap_or(false) {
        PUBLISH_ALL.store(true, Ordering::Relaxed);
    }
    start_watchdog();
    let mut rep = Report::new();
    for b in lo..hi {
        CUR_BATCH.store(b, Ordering::Relaxed);
        beat();
        let mut r = Report::new();
        let t0 = Instant::now();
        engine.run_batch(ctx, b, &mut r);
        if std::env::var("VERIF_PROFILE_BATCHES").is_ok() {
            eprintln!("batch {} {:.3}s evaluations {}", b, t0.elapsed().as_secs_f64(), r.get("evaluations"));
        }
        rep.merge(r);
    }
    let out = rep.to_json().to_string();
    let stdout = std::io::stdout();
    let mut l = stdout.lock();
    let _ = writeln!(l, "REPORT {}", out);
    let _ = l.flush();
}

pub enum WorkerOutcome {
    Done(Report),
    Hang(Value),
    /// message, and (publish mode) the case that was running when the process died
    Crash(String, Option<Value>),
}

fn run_worker(ctx: &Ctx, lo: usize, hi: usize, publish: bool) -> WorkerOutcome {
    let exe = std::env::current_exe().expect("current_exe");
    let out = std::process::Command::new(exe)
        .arg("--worker")
        .arg(&ctx.prop)
        .arg(ctx.tier.name())
        .arg(ctx.seed.to_string())
        .arg(lo.to_string())
        .arg(hi.to_string())
        .env("VERIF_PUBLISH", if publish { "1" } else { "0" })
        .stdin(std::process::Stdio::null())
        .stderr(std::process::Stdio::piped())
        .output();
    let out = match out {
        Ok(o) => o,
        Err(e) => return WorkerOutcome::Crash(format!("cannot spawn worker: {}", e), None),
    };
    let text = String::from_utf8_lossy(&out.stdout);
    let mut last_case: Option<Value> = None;
    for line in text.lines() {
        if let Some(j) = line.strip_prefix("CASE ") {
            last_case = serde_json::from_str::<Value>(j).ok().filter(|v| !v.is_null());
            continue;
        }
        if let Some(j) = line.strip_prefix("REPORT ") {
            if let Ok(v) = serde_json::from_str::<Value>(j) {
                return WorkerOutcome::Done(Report::from_json(&v));
            }
        }
        if let Some(j) = line.strip_prefix("HANG ") {
            if let Ok(v) = serde_json::from_str::<Value>(j) {
                return WorkerOutcome::Hang(v);
            }
        }
    }
    let err = String::from_utf8_lossy(&out.stderr);
    let tail: String = err.chars().rev().take(600).collect::<String>().chars().rev().collect();
    WorkerOutcome::Crash(format!("worker for batches {}..{} ended with {:?} without a report; stderr tail: {}", lo, hi, out.status, tail), last_case)
}

// ---------------------------------------------------------------------------------------------
// coordinator

pub fn verif_dir() -> PathBuf {
    PathBuf::from(std::env::var("VERIF_DIR").unwrap_or_else(|_| "/verif".to_string()))
}

fn num_threads() -> usize {
    std::env::var("VERIF_JOBS").ok().and_then(|s| s.parse().ok()).unwrap_or_else(|| std::thread::available_parallelism().map(|n| n.get()).unwrap_or(8)).max(1)
}

pub struct RunResult {
    pub report: Report,
    pub machinery_failures: Vec<String>,
    pub wall_s: f64,
    pub batches: usize,
}

/// Run all batches of `engine` in worker subprocesses. `group` = batches per worker process.
pub fn run_engine(engine: &dyn Engine, ctx: &Ctx) -> RunResult {
    let t0 = Instant::now();
    let nb = engine.num_batches(ctx);
    let nt = num_threads();
    // a worker process takes a contiguous group of batches; aim at ~8 groups per thread, fewer batches per group
    // where the engine says its batches are heavy
    let default_group = ((nb + nt * 8 - 1) / (nt * 8)).max(1);
    let mut bounds: Vec<(usize, usize)> = vec![];
    let mut lo = 0;
    while lo < nb {
        let cap = engine.max_group(ctx, lo).min(default_group).max(1);
        let mut hi = lo + 1;
        while hi < nb && hi - lo < cap && engine.max_group(ctx, hi) >= cap {
            hi += 1;
        }
        bounds.push((lo, hi));
        lo = hi;
    }
    let ngroups = bounds.len();
    let next = AtomicUsize::new(0);
    let results: Mutex<Vec<Option<WorkerOutcome>>> = Mutex::new((0..ngroups).map(|_| None).collect());
    let hang_verdicts = engine.hang_is_violation(&ctx.prop);
    let localised = AtomicUsize::new(0);
    std::thread::scope(|sc| {
        for _ in 0..nt.min(ngroups) {
            sc.spawn(|| loop {
                let g = next.fetch_add(1, Ordering::SeqCst);
                if g >= ngroups {
                    break;
                }
                let (lo, hi) = bounds[g];
                let mut r = run_worker(ctx, lo, hi, false);
                // a hang outside a published case: run the group once more with every case published, so that the
                // watchdog can name the case (a few such re-runs are enough: each costs the CPU limit again)
                if let WorkerOutcome::Hang(v) = &r {
                    if hang_verdicts && v["case"].is_null() && v["by"] == "cpu" && localised.fetch_add(1, Ordering::SeqCst) < 4 {
                        match run_worker(ctx, lo, hi, true) {
                            WorkerOutcome::Hang(v2) if !v2["case"].is_null() => r = WorkerOutcome::Hang(v2),
                            WorkerOutcome::Hang(_) => {}
                            WorkerOutcome::Done(_) => r = WorkerOutcome::Crash(format!("group {}: a hang did not recur when the group was run again with published cases", g), None),
                            WorkerOutcome::Crash(m, c) => r = WorkerOutcome::Crash(m, c),
                        }
                    }
                }
                // a worker that died without a report (abort on allocation failure, stack overflow, kill): run the group
                // again with published cases; if it dies again, the last case written out is the one that killed it
                let first_crash = match &r {
                    WorkerOutcome::Crash(m, None) if !m.starts_with("cannot spawn") => Some(m.clone()),
                    _ => None,
                };
                if let Some(m1) = first_crash {
                    if hang_verdicts && localised.fetch_add(1, Ordering::SeqCst) < 4 {
                        match run_worker(ctx, lo, hi, true) {
                            WorkerOutcome::Crash(m2, Some(c)) => r = WorkerOutcome::Crash(m2, Some(c)),
                            WorkerOutcome::Crash(m2, None) => r = WorkerOutcome::Crash(format!("{} (again, outside any case: {})", m1, m2), None),
                            WorkerOutcome::Done(_) => r = WorkerOutcome::Crash(format!("{} (did not recur when the group was run again)", m1), None),
                            WorkerOutcome::Hang(v2) => r = WorkerOutcome::Hang(v2),
                        }
                    }
                }
                results.lock().unwrap()[g] = Some(r);
            });
        }
    });
    let mut report = Report::new();
    let mut failures = vec![];
    for (g, r) in results.into_inner().unwrap().into_iter().enumerate() {
        match r {
            Some(WorkerOutcome::Done(r)) => report.merge(r),
            Some(WorkerOutcome::Hang(v)) => {
                let in_case = !v["case"].is_null() && v["by"] == "cpu";
                if engine.hang_is_violation(&ctx.prop) && in_case {
                    let case = json!({"hang": v, "group_lo": bounds[g].0, "group_hi": bounds[g].1});
                    let shown: String = v["case"].to_string().chars().take(400).collect();
                    report.violation(&ctx.prop, engine.name(), case, format!("the code under test did not return after {} s of CPU time on the case {}", CASE_CPU_LIMIT_S, shown));
                } else {
                    failures.push(format!("watchdog: no progress ({} s CPU / {} s wall limit): {}", CASE_CPU_LIMIT_S, CASE_WALL_LIMIT_S, v));
                }
            }
            Some(WorkerOutcome::Crash(m, Some(c))) => {
                if hang_verdicts {
                    let shown: String = c.to_string().chars().take(400).collect();
                    let case = json!({"hang": {"case": c, "crash": m, "by": "crash"}, "group_lo": bounds[g].0, "group_hi": bounds[g].1});
                    report.violation(&ctx.prop, engine.name(), case, format!("the code under test killed the process (no panic that could be caught: allocation failure, stack overflow or abort) on the case {}", shown));
                } else {
                    failures.push(m);
                }
            }
            Some(WorkerOutcome::Crash(m, None)) => failures.push(m),
            None => failures.push(format!("group {} was never run", g)),
        }
    }
    RunResult { report, machinery_failures: failures, wall_s: t0.elapsed().as_secs_f64(), batches: nb }
}

// ---------------------------------------------------------------------------------------------
// known findings

pub struct Known {
    pub findings: Vec<Value>,
}

pub fn load_known() -> Known {
    let p = verif_dir().join("known_findings.json");
    let mut findings = vec![];
    if let Ok(s) = std::fs::read_to_string(&p) {
        if let Ok(v) = serde_json::from_str::<Value>(&s) {
            if let Some(a) = v["findings"].as_array() {
                findings = a.clone();
            }
        }
    }
    Known { findings }
}

impl Known {
    /// A recorded finding matches a violation when property and the concrete case are identical.
    pub fn matches(&self, viol: &Value) -> Option<String> {
        for f in &self.findings {
            if f["property"] == viol["property"] && f["case"] == viol["case"] {
                return Some(f["what"].as_str().unwrap_or("").to_string());
            }
        }
        None
    }
}

// ---------------------------------------------------------------------------------------------
// evidence + verdict

fn short_hash(s: &str) -> String {
    // FNV-1a, only used to name replay files
    let mut h: u64 = 0xcbf29ce484222325;
    for b in s.bytes() {
        h ^= b as u64;
        h = h.wrapping_mul(0x100000001b3);
    }
    format!("{:016x}", h)
}

pub fn write_replay(viol: &Value) -> PathBuf {
    let prop = viol["property"].as_str().unwrap_or("UNK");
    let dir = verif_dir().join("replays").join(prop);
    let _ = std::fs::create_dir_all(&dir);
    let body = serde_json::to_string_pretty(viol).unwrap();
    let path = dir.join(format!("{}.json", short_hash(&viol["case"].to_string())));
    let _ = std::fs::write(&path, body);
    path
}

/// Re-execute a replay file in a fresh subprocess; true iff it reports the violation again.
fn confirm_replay(path: &Path) -> Result<bool, String> {
    let exe = std::env::current_exe().map_err(|e| e.to_string())?;
    let out = std::process::Command::new(exe).arg("replay").arg(path).arg("--quiet").output().map_err(|e| e.to_string())?;
    match out.status.code() {
        Some(1) => Ok(true),
        Some(0) => Ok(false),
        c => Err(format!("replay of {} ended with {:?}", path.display(), c)),
    }
}

pub fn finish(engine: &dyn Engine, ctx: &Ctx, rr: RunResult) -> i32 {
    let meta = engine.meta(ctx);
    let rep = &rr.report;
    let known = load_known();
    let mut new_viol: Vec<(Value, PathBuf)> = vec![];
    let mut known_lines: Vec<String> = vec![];
    let mut nondet: Vec<String> = vec![];
    for v in &rep.violations {
        if let Some(what) = known.matches(v) {
            let line = format!("KNOWN-FINDING: property={} {}", v["property"].as_str().unwrap_or(""), what);
            if !known_lines.contains(&line) {
                known_lines.push(line);
            }
            continue;
        }
        if new_viol.len() >= 10 {
            continue;
        }
        let path = write_replay(v);
        if v["case"].get("hang").is_some() {
            new_viol.push((v.clone(), path));
            continue;
        }
        match confirm_replay(&path) {
            Ok(true) => new_viol.push((v.clone(), path)),
            Ok(false) => nondet.push(format!("violation did not reproduce from its replay record {}", path.display())),
            Err(e) => nondet.push(e),
        }
    }
    // all violations beyond those listed individually are counted, never dropped silently
    let total_viol = rep.get("violations");
    let listed_known = rep.violations.iter().filter(|v| known.matches(v).is_some()).count() as u64;
    let unexplained = total_viol.saturating_sub(listed_known);

    let states = rep.get("states");
    let transitions = rep.get("transitions");
    let evaluations = rep.get("evaluations");
    let nontrivial = rep.get("nontrivial");
    let caps_hit = rep.get("caps_hit");
    let mut cov = Map::new();
    cov.insert("evaluations".into(), json!(evaluations));
    cov.insert("distinct_nontrivial".into(), json!(nontrivial));
    cov.insert("rule".into(), json!(meta.rule));
    cov.insert("space".into(), json!(meta.space));
    cov.insert("samples".into(), json!(rep.samples));
    if states > 0 || meta.level == "model_checking" {
        cov.insert("states".into(), json!(states));
        cov.insert("transitions".into(), json!(transitions));
        // every explored transition is an execution of the real code (there is no separate model)
        cov.insert("traces_validated_against_impl".into(), json!(rep.get("impl_traces")));
    }
    cov.insert("exhaustive".into(), json!(meta.exhaustive && caps_hit == 0 && rr.machinery_failures.is_empty()));
    cov.insert("caps_hit".into(), json!(caps_hit));
    cov.insert("batches".into(), json!(rr.batches));
    cov.insert("profile".into(), json!(profile_name()));
    cov.insert("counters".into(), json!(rep.counters));
    cov.insert("histograms".into(), json!(rep.hist));
    cov.insert("maxima".into(), json!(rep.maxima));
    cov.insert("notes".into(), json!(rep.notes));
    cov.insert("known_findings_seen".into(), json!(known_lines));
    cov.insert("machinery_failures".into(), json!(rr.machinery_failures));
    let ev = json!({
        "property_id": ctx.prop, "tier": ctx.tier.name(), "seed": ctx.seed, "level": meta.level,
        "coverage": Value::Object(cov), "assumptions": meta.assumptions,
        "wall_s": (rr.wall_s * 1000.0).round() / 1000.0,
        "violations": unexplained,
    });
    write_evidence(&ctx.prop, &ev);

    for l in &known_lines {
        println!("{}", l);
    }
    println!(
        "[{}] tier={} profile={} evaluations={} nontrivial={} states={} transitions={} violations={} wall={:.1}s",
        ctx.prop, ctx.tier.name(), profile_name(), evaluations, nontrivial, states, transitions, total_viol, rr.wall_s
    );
    if !rr.machinery_failures.is_empty() || !nondet.is_empty() {
        for f in rr.machinery_failures.iter().chain(nondet.iter()) {
            eprintln!("MACHINERY-FAILURE: {}", f);
        }
        // a machinery failure is never a verdict
        if new_viol.is_empty() {
            return 2;
        }
    }
    if !new_viol.is_empty() {
        for (v, p) in &new_viol {
            println!("VIOLATION property={} replay={}", v["property"].as_str().unwrap_or(&ctx.prop), p.display());
            println!("  {}", v["message"].as_str().unwrap_or(""));
        }
        return 1;
    }
    if unexplained > 0 {
        // cannot happen (violations beyond the per-batch cap always come with listed ones), but never exit 0 then
        eprintln!("MACHINERY-FAILURE: {} violations counted but none listed", unexplained);
        return 2;
    }
    if evaluations == 0 {
        eprintln!("MACHINERY-FAILURE: nothing was explored");
        return 2;
    }
    0
}

/// Evidence of the two build profiles of one property is merged into one file:
/// the dev-profile run stores its coverage under `coverage.dev_profile`.
pub fn write_evidence(prop: &str, ev: &Value) {
    let dir = verif_dir().join("evidence");
    let _ = std::fs::create_dir_all(&dir);
    let path = dir.join(format!("{}.json", prop));
    let mut ev = ev.clone();
    if std::env::var("VERIF_EVIDENCE_MERGE").ok().as_deref() == Some("1") {
        // second configuration of the same check: keep the first run's file and nest this one
        if let Ok(s) = std::fs::read_to_string(&path) {
            if let Ok(mut first) = serde_json::from_str::<Value>(&s) {
                let key = format!("{}_profile", profile_name());
                let w = first["wall_s"].as_f64().unwrap_or(0.0) + ev["wall_s"].as_f64().unwrap_or(0.0);
                let v = first["violations"].as_u64().unwrap_or(0) + ev["violations"].as_u64().unwrap_or(0);
                first["coverage"][key] = ev["coverage"].clone();
                first["wall_s"] = json!(w);
                first["violations"] = json!(v);
                ev = first;
            }
        }
    }
    let tmp = dir.join(format!(".{}.json.tmp", prop));
    let _ = std::fs::write(&tmp, serde_json::to_string_pretty(&ev).unwrap());
    let _ = std::fs::rename(&tmp, &path);
}

pub fn replay_main(engine_for: &dyn Fn(&str) -> Option<Box<dyn Engine>>, path: &str, quiet: bool) -> i32 {
    install_quiet_panic_hook();
    let s = match std::fs::read_to_string(path) {
        Ok(s) => s,
        Err(e) => {
            eprintln!("cannot read {}: {}", path, e);
            return 2;
        }
    };
    let v: Value = match serde_json::from_str(&s) {
        Ok(v) => v,
        Err(e) => {
            eprintln!("bad replay file: {}", e);
            return 2;
        }
    };
    let prop = v["property"].as_str().unwrap_or("").to_string();
    let engine = match engine_for(&prop) {
        Some(e) => e,
        None => {
            eprintln!("no engine for property {}", prop);
            return 2;
        }
    };
    if v["profile"].as_str().map(|p| p != profile_name()).unwrap_or(false) && !quiet {
        println!("note: recorded in the {} profile, replaying in {}", v["profile"], profile_name());
    }
    let ctx = Ctx { prop: prop.clone(), tier: Tier::Quick, seed: 0 };
    let mut rep = Report::new();
    start_watchdog();
    let mut case = v["case"].clone();
    if case.get("hang").is_some() {
        // a recorded hang or crash: the case that was running is replayed in a child process; not returning (the
        // child's watchdog ends it) or dying is the violation again
        let inner = json!({"property": prop, "engine": v["engine"], "case": case["hang"]["case"], "profile": v["profile"]});
        let dir = verif_dir().join("replays");
        let _ = std::fs::create_dir_all(&dir);
        let tmp = dir.join(format!(".inner-{}.json", std::process::id()));
        if std::fs::write(&tmp, inner.to_string()).is_err() {
            eprintln!("cannot write {}", tmp.display());
            return 2;
        }
        let exe = match std::env::current_exe() {
            Ok(e) => e,
            Err(_) => return 2,
        };
        let out = std::process::Command::new(exe).arg("replay").arg(&tmp).arg("--quiet").output();
        let _ = std::fs::remove_file(&tmp);
        return match out {
            Err(e) => {
                eprintln!("cannot run the replay child: {}", e);
                2
            }
            Ok(o) => match o.status.code() {
                Some(0) => {
                    if !quiet {
                        println!("replay of {}: the recorded case returns now and property {} holds on it", path, prop);
                    }
                    0
                }
                Some(1) => {
                    if !quiet {
                        println!("VIOLATION property={} replay={}", prop, path);
                        println!("  the recorded case returns now, with a wrong result");
                    }
                    1
                }
                Some(2) => 2,
                other => {
                    if !quiet {
                        println!("VIOLATION property={} replay={}", prop, path);
                        println!("  the code under test again did not return on the recorded case (child ended with {:?}: 3 = no progress within {} s of CPU time, none = killed)", other, CASE_CPU_LIMIT_S);
                    }
                    1
                }
            },
        };
    }
    REPLAYING.store(true, Ordering::Relaxed);
    PUBLISH_ALL.store(true, Ordering::Relaxed);
    if case.is_object() && case.get("__engine").is_none() {
        case["__engine"] = v["engine"].clone();
    }
    engine.replay(&ctx, &case, &mut rep);
    if rep.get("violations") > 0 {
        if !quiet {
            for x in &rep.violations {
                println!("VIOLATION property={} replay={}", prop, path);
                println!("  {}", x["message"].as_str().unwrap_or(""));
            }
        }
        1
    } else {
        if !quiet {
            println!("replay of {}: property {} holds on this case", path, prop);
        }
        0
    }
}

/// several engines serving one property: batches are concatenated, replay is routed by engine name
pub struct Composite {
    pub parts: Vec<Box<dyn Engine>>,
}

impl Engine for Composite {
    fn name(&self) -> &'static str {
        "composite"
    }
    fn meta(&self, ctx: &Ctx) -> Meta {
        let ms: Vec<Meta> = self.parts.iter().map(|p| p.meta(ctx)).collect();
        let mut assumptions: Vec<String> = vec![];
        for m in &ms {
            for a in &m.assumptions {
                if !assumptions.contains(a) {
                    assumptions.push(a.clone());
                }
            }
        }
        Meta {
            level: ms[0].level,
            rule: ms.iter().zip(self.parts.iter()).map(|(m, p)| format!("[{}] {}", p.name(), m.rule)).collect::<Vec<_>>().join(" || "),
            assumptions,
            exhaustive: ms.iter().all(|m| m.exhaustive),
            space: ms.iter().zip(self.parts.iter()).map(|(m, p)| format!("[{}] {}", p.name(), m.space)).collect::<Vec<_>>().join(" || "),
        }
    }
    fn num_batches(&self, ctx: &Ctx) -> usize {
        self.parts.iter().map(|p| p.num_batches(ctx)).sum()
    }
    fn run_batch(&self, ctx: &Ctx, batch: usize, rep: &mut Report) {
        let mut b = batch;
        for p in &self.parts {
            let n = p.num_batches(ctx);
            if b < n {
                return p.run_batch(ctx, b, rep);
            }
            b -= n;
        }
    }
    fn replay(&self, ctx: &Ctx, case: &Value, rep: &mut Report) {
        let name = case["__engine"].as_str().unwrap_or("");
        for p in &self.parts {
            if p.name() == name {
                return p.replay(ctx, case, rep);
            }
        }
        self.parts[0].replay(ctx, case, rep)
    }
    fn hang_is_violation(&self, prop: &str) -> bool {
        self.parts.iter().any(|p| p.hang_is_violation(prop))
    }
    fn max_group(&self, ctx: &Ctx, batch: usize) -> usize {
        let mut b = batch;
        for p in &self.parts {
            let n = p.num_batches(ctx);
            if b < n {
                return p.max_group(ctx, b);
            }
            b -= n;
        }
        usize::MAX
    }
}
