//! Construction programs: my own plain data type for "how a regular expression was built",
//! its SMT-LIB denotation (reference DFA and word-level membership), and the two ways of
//! running it on the real code (ReManager methods, SMT-LIB-named wrappers).

use crate::refdfa::Dfa;
use crate::universe::Universe;
use aws_smt_strings::character_sets::CharSet;
use aws_smt_strings::loop_ranges::LoopRange;
use aws_smt_strings::regular_expressions::{ReManager, RegLan};
use aws_smt_strings::smt_regular_expressions as w;
use aws_smt_strings::smt_strings::{SmtString, EMPTY};
use std::collections::HashMap;
use std::sync::Arc as Rc;

#[derive(Clone, Debug, PartialEq, Eq, Hash)]
pub enum P {
    None,
    Eps,
    All,
    AllChar,
    SigPlus,
    Rng(u8, u8),
    Ch(u32),
    Cs(u32, u32),
    Str(Vec<u32>),
    SRange(Vec<u32>, Vec<u32>),
    Comp(Rc<P>),
    Star(Rc<P>),
    Plus(Rc<P>),
    Opt(Rc<P>),
    Pow(Rc<P>, u32),
    Loop(Rc<P>, u32, u32),
    LoopInf(Rc<P>, u32),
    MkLoop(Rc<P>, u32, u32),
    Concat(Rc<P>, Rc<P>),
    Union(Rc<P>, Rc<P>),
    Inter(Rc<P>, Rc<P>),
    Diff(Rc<P>, Rc<P>),
    ConcatL(Vec<Rc<P>>),
    UnionL(Vec<Rc<P>>),
    InterL(Vec<Rc<P>>),
    DiffL(Rc<P>, Vec<Rc<P>>),
}

fn codes(w: &[u32]) -> String {
    w.iter().map(|c| c.to_string()).collect::<Vec<_>>().join(".")
}

impl P {
    /// the operand programs (one level down)
    pub fn children(&self) -> Vec<Rc<P>> {
        match self {
            P::Comp(a) | P::Star(a) | P::Plus(a) | P::Opt(a) | P::Pow(a, _) | P::Loop(a, _, _) | P::LoopInf(a, _) | P::MkLoop(a, _, _) => vec![a.clone()],
            P::Concat(a, b) | P::Union(a, b) | P::Inter(a, b) | P::Diff(a, b) => vec![a.clone(), b.clone()],
            P::ConcatL(v) | P::UnionL(v) | P::InterL(v) => v.clone(),
            P::DiffL(a, v) => {
                let mut r = vec![a.clone()];
                r.extend(v.iter().cloned());
                r
            }
            _ => vec![],
        }
    }
    /// all proper sub-programs, outermost first
    pub fn subprograms(&self) -> Vec<Rc<P>> {
        let mut out: Vec<Rc<P>> = vec![];
        let mut todo = self.children();
        while let Some(c) = todo.pop() {
            if !out.iter().any(|x| **x == *c) {
                todo.extend(c.children());
                out.push(c);
            }
        }
        out
    }
    pub fn show(&self) -> String {
        fn list(v: &[Rc<P>]) -> String {
            v.iter().map(|p| p.show()).collect::<Vec<_>>().join(",")
        }
        match self {
            P::None => "none".into(),
            P::Eps => "eps".into(),
            P::All => "all".into(),
            P::AllChar => "allchar".into(),
            P::SigPlus => "sigplus".into(),
            P::Rng(l, h) => format!("r{:x}{:x}", l, h),
            P::Ch(c) => format!("ch({})", c),
            P::Cs(l, h) => format!("cs({},{})", l, h),
            P::Str(w) => format!("str({})", codes(w)),
            P::SRange(a, b) => format!("srange({};{})", codes(a), codes(b)),
            P::Comp(a) => format!("comp({})", a.show()),
            P::Star(a) => format!("star({})", a.show()),
            P::Plus(a) => format!("plus({})", a.show()),
            P::Opt(a) => format!("opt({})", a.show()),
            P::Pow(a, k) => format!("pow({},{})", a.show(), k),
            P::Loop(a, i, j) => format!("loop({},{},{})", a.show(), i, j),
            P::LoopInf(a, i) => format!("loopinf({},{})", a.show(), i),
            P::MkLoop(a, i, j) => format!("mkloop({},{},{})", a.show(), i, j),
            P::Concat(a, b) => format!("concat({},{})", a.show(), b.show()),
            P::Union(a, b) => format!("union({},{})", a.show(), b.show()),
            P::Inter(a, b) => format!("inter({},{})", a.show(), b.show()),
            P::Diff(a, b) => format!("diff({},{})", a.show(), b.show()),
            P::ConcatL(v) => format!("concatl({})", list(v)),
            P::UnionL(v) => format!("unionl({})", list(v)),
            P::InterL(v) => format!("interl({})", list(v)),
            P::DiffL(a, v) => format!("diffl({};{})", a.show(), list(v)),
        }
    }

    pub fn depth(&self) -> usize {
        match self {
            P::Comp(a) | P::Star(a) | P::Plus(a) | P::Opt(a) | P::Pow(a, _) | P::Loop(a, _, _) | P::LoopInf(a, _) | P::MkLoop(a, _, _) => 1 + a.depth(),
            P::Concat(a, b) | P::Union(a, b) | P::Inter(a, b) | P::Diff(a, b) => 1 + a.depth().max(b.depth()),
            P::ConcatL(v) | P::UnionL(v) | P::InterL(v) => 1 + v.iter().map(|p| p.depth()).max().unwrap_or(0),
            P::DiffL(a, v) => 1 + a.depth().max(v.iter().map(|p| p.depth()).max().unwrap_or(0)),
            _ => 0,
        }
    }

    pub fn parse(s: &str) -> Result<P, String> {
        let b: Vec<char> = s.chars().filter(|c| !c.is_whitespace()).collect();
        let mut pos = 0;
        let p = parse_p(&b, &mut pos)?;
        if pos != b.len() {
            return Err(format!("trailing text at {}", pos));
        }
        Ok(p)
    }
}

fn parse_ident(b: &[char], pos: &mut usize) -> String {
    let mut s = String::new();
    while *pos < b.len() && b[*pos].is_ascii_alphabetic() {
        s.push(b[*pos]);
        *pos += 1;
    }
    s
}
fn parse_num(b: &[char], pos: &mut usize) -> Result<u32, String> {
    let mut s = String::new();
    while *pos < b.len() && b[*pos].is_ascii_digit() {
        s.push(b[*pos]);
        *pos += 1;
    }
    s.parse::<u32>().map_err(|_| format!("number expected at {}", pos))
}
fn expect(b: &[char], pos: &mut usize, c: char) -> Result<(), String> {
    if *pos < b.len() && b[*pos] == c {
        *pos += 1;
        Ok(())
    } else {
        Err(format!("'{}' expected at {}", c, pos))
    }
}
fn parse_codes(b: &[char], pos: &mut usize) -> Result<Vec<u32>, String> {
    let mut v = vec![];
    if *pos < b.len() && b[*pos].is_ascii_digit() {
        v.push(parse_num(b, pos)?);
        while *pos < b.len() && b[*pos] == '.' {
            *pos += 1;
            v.push(parse_num(b, pos)?);
        }
    }
    Ok(v)
}
fn parse_list(b: &[char], pos: &mut usize) -> Result<Vec<Rc<P>>, String> {
    let mut v = vec![];
    if *pos < b.len() && b[*pos] == ')' {
        return Ok(v);
    }
    v.push(Rc::new(parse_p(b, pos)?));
    while *pos < b.len() && b[*pos] == ',' {
        *pos += 1;
        v.push(Rc::new(parse_p(b, pos)?));
    }
    Ok(v)
}
fn parse_p(b: &[char], pos: &mut usize) -> Result<P, String> {
    // region ranges r<l><h> (hex digits): no constructor name starts with 'r'
    if *pos + 2 < b.len() + 0 && b[*pos] == 'r' && b[*pos + 1].is_ascii_hexdigit() && b[*pos + 2].is_ascii_hexdigit() {
        let l = b[*pos + 1].to_digit(16).unwrap() as u8;
        let h = b[*pos + 2].to_digit(16).unwrap() as u8;
        *pos += 3;
        return Ok(P::Rng(l, h));
    }
    let id = parse_ident(b, pos);
    match id.as_str() {
        "none" => Ok(P::None),
        "eps" => Ok(P::Eps),
        "all" => Ok(P::All),
        "allchar" => Ok(P::AllChar),
        "sigplus" => Ok(P::SigPlus),
        "r" => {
            if *pos + 1 < b.len() && b[*pos].is_ascii_hexdigit() && b[*pos + 1].is_ascii_hexdigit() {
                let l = b[*pos].to_digit(16).unwrap() as u8;
                let h = b[*pos + 1].to_digit(16).unwrap() as u8;
                *pos += 2;
                Ok(P::Rng(l, h))
            } else {
                Err("region range r<l><h> expected".into())
            }
        }
        "ch" => {
            expect(b, pos, '(')?;
            let c = parse_num(b, pos)?;
            expect(b, pos, ')')?;
            Ok(P::Ch(c))
        }
        "cs" => {
            expect(b, pos, '(')?;
            let l = parse_num(b, pos)?;
            expect(b, pos, ',')?;
            let h = parse_num(b, pos)?;
            expect(b, pos, ')')?;
            Ok(P::Cs(l, h))
        }
        "str" => {
            expect(b, pos, '(')?;
            let w = parse_codes(b, pos)?;
            expect(b, pos, ')')?;
            Ok(P::Str(w))
        }
        "srange" => {
            expect(b, pos, '(')?;
            let w1 = parse_codes(b, pos)?;
            expect(b, pos, ';')?;
            let w2 = parse_codes(b, pos)?;
            expect(b, pos, ')')?;
            Ok(P::SRange(w1, w2))
        }
        "comp" | "star" | "plus" | "opt" => {
            expect(b, pos, '(')?;
            let a = Rc::new(parse_p(b, pos)?);
            expect(b, pos, ')')?;
            Ok(match id.as_str() {
                "comp" => P::Comp(a),
                "star" => P::Star(a),
                "plus" => P::Plus(a),
                _ => P::Opt(a),
            })
        }
        "pow" | "loopinf" => {
            expect(b, pos, '(')?;
            let a = Rc::new(parse_p(b, pos)?);
            expect(b, pos, ',')?;
            let k = parse_num(b, pos)?;
            expect(b, pos, ')')?;
            Ok(if id == "pow" { P::Pow(a, k) } else { P::LoopInf(a, k) })
        }
        "loop" | "mkloop" => {
            expect(b, pos, '(')?;
            let a = Rc::new(parse_p(b, pos)?);
            expect(b, pos, ',')?;
            let i = parse_num(b, pos)?;
            expect(b, pos, ',')?;
            let j = parse_num(b, pos)?;
            expect(b, pos, ')')?;
            Ok(if id == "loop" { P::Loop(a, i, j) } else { P::MkLoop(a, i, j) })
        }
        "concat" | "union" | "inter" | "diff" => {
            expect(b, pos, '(')?;
            let a = Rc::new(parse_p(b, pos)?);
            expect(b, pos, ',')?;
            let c = Rc::new(parse_p(b, pos)?);
            expect(b, pos, ')')?;
            Ok(match id.as_str() {
                "concat" => P::Concat(a, c),
                "union" => P::Union(a, c),
                "inter" => P::Inter(a, c),
                _ => P::Diff(a, c),
            })
        }
        "concatl" | "unionl" | "interl" => {
            expect(b, pos, '(')?;
            let v = parse_list(b, pos)?;
            expect(b, pos, ')')?;
            Ok(match id.as_str() {
                "concatl" => P::ConcatL(v),
                "unionl" => P::UnionL(v),
                _ => P::InterL(v),
            })
        }
        "diffl" => {
            expect(b, pos, '(')?;
            let a = Rc::new(parse_p(b, pos)?);
            expect(b, pos, ';')?;
            let v = parse_list(b, pos)?;
            expect(b, pos, ')')?;
            Ok(P::DiffL(a, v))
        }
        _ => Err(format!("unknown constructor '{}' at {}", id, pos)),
    }
}

// ---------------------------------------------------------------------------------------------
// denotation 1: reference DFA (memoised per sub-program)

pub struct RefCache {
    pub u: Universe,
    memo: HashMap<P, Rc<Dfa>>,
    pub memo_limit: usize,
}

impl RefCache {
    pub fn new(u: Universe) -> RefCache {
        RefCache { u, memo: HashMap::new(), memo_limit: 200_000 }
    }

    fn letters_of_char(&self, c: u32) -> Dfa {
        let k = self.u.k();
        let r = self.u.region_of(c);
        assert!(self.u.regions[r].0 == self.u.regions[r].1, "character {} is not a singleton region of the universe", c);
        Dfa::letters(k, 1 << r).minimize()
    }

    /// region mask if p denotes a set of one-character strings given by an atom
    fn letter_mask(&self, p: &P) -> Option<u64> {
        let k = self.u.k();
        match p {
            P::AllChar => Some((1u64 << k) - 1),
            P::Rng(l, h) => Some((*l..=*h).fold(0u64, |m, x| m | 1 << x)),
            P::Ch(c) => Some(1 << self.u.region_of(*c)),
            P::Cs(l, h) => self.u.aligned_mask(*l, *h),
            _ => None,
        }
    }

    /// the canonical minimal complete DFA of the language SMT-LIB assigns to the construction
    pub fn dfa(&mut self, p: &P) -> Rc<Dfa> {
        if let Some(d) = self.memo.get(p) {
            return d.clone();
        }
        let d = Rc::new(self.compute(p));
        // memoise only shallow programs: they are the operands of everything else
        if p.depth() <= 1 || self.memo.len() < self.memo_limit && p.depth() <= 2 {
            self.memo.insert(p.clone(), d.clone());
        }
        d
    }

    fn compute(&mut self, p: &P) -> Dfa {
        let k = self.u.k();
        match p {
            P::None => Dfa::empty(k),
            P::Eps => Dfa::eps(k),
            P::All => Dfa::all(k),
            P::AllChar => Dfa::letters(k, (1u64 << k) - 1).minimize(),
            P::SigPlus => Dfa::letters(k, (1u64 << k) - 1).minimize().plus(),
            P::Rng(l, h) => {
                let mut m = 0u64;
                for x in *l..=*h {
                    m |= 1 << x;
                }
                Dfa::letters(k, m).minimize()
            }
            P::Ch(c) => self.letters_of_char(*c),
            P::Cs(l, h) => {
                let m = self.u.aligned_mask(*l, *h).expect("cs(lo,hi) must be region aligned");
                Dfa::letters(k, m).minimize()
            }
            P::Str(w) => {
                let mut d = Dfa::eps(k);
                for &c in w {
                    d = d.concat(&self.letters_of_char(c));
                }
                d
            }
            P::SRange(a, b) => {
                // re.range is empty unless both strings are singletons and a <= b
                if a.len() == 1 && b.len() == 1 && a[0] <= b[0] {
                    let m = self.u.aligned_mask(a[0], b[0]).expect("srange must be region aligned");
                    Dfa::letters(k, m).minimize()
                } else {
                    Dfa::empty(k)
                }
            }
            P::Comp(a) => self.dfa(a).complement().minimize(),
            P::Star(a) => self.dfa(a).star(),
            P::Plus(a) => self.dfa(a).plus(),
            P::Opt(a) => Dfa::eps(k).union(&self.dfa(a)),
            P::Pow(a, n) => self.dfa(a).power(*n),
            P::Loop(a, i, j) | P::MkLoop(a, i, j) => {
                if i > j {
                    Dfa::empty(k)
                } else if let (true, Some(m)) = (*j > 8, self.letter_mask(a)) {
                    // a large loop over a set of single characters is a counter: built directly (the generic
                    // construction is quadratic in the bound)
                    Dfa::counter(k, m, *i, *j).minimize()
                } else {
                    self.dfa(a).repeat(*i, Some(*j))
                }
            }
            P::LoopInf(a, i) => self.dfa(a).repeat(*i, None),
            P::Concat(a, b) => {
                let (x, y) = (self.dfa(a), self.dfa(b));
                x.concat(&y)
            }
            P::Union(a, b) => {
                let (x, y) = (self.dfa(a), self.dfa(b));
                x.union(&y)
            }
            P::Inter(a, b) => {
                let (x, y) = (self.dfa(a), self.dfa(b));
                x.inter(&y)
            }
            P::Diff(a, b) => {
                let (x, y) = (self.dfa(a), self.dfa(b));
                x.inter(&y.complement())
            }
            P::ConcatL(v) => {
                let mut d = Dfa::eps(k);
                for x in v {
                    d = d.concat(&self.dfa(x));
                }
                d
            }
            P::UnionL(v) => {
                let mut d = Dfa::empty(k);
                for x in v {
                    d = d.union(&self.dfa(x));
                }
                d
            }
            P::InterL(v) => {
                let mut d = Dfa::all(k);
                for x in v {
                    d = d.inter(&self.dfa(x));
                }
                d
            }
            P::DiffL(a, v) => {
                let mut d = (*self.dfa(a)).clone();
                for x in v {
                    d = d.inter(&self.dfa(x).complement());
                }
                d
            }
        }
    }
}

// ---------------------------------------------------------------------------------------------
// denotation 2: word-level membership straight from the SMT-LIB definitions

pub struct WordSem<'a> {
    pub u: &'a Universe,
    memo: HashMap<(*const P, usize, usize), bool>,
}

impl<'a> WordSem<'a> {
    pub fn new(u: &'a Universe) -> WordSem<'a> {
        WordSem { u, memo: HashMap::new() }
    }

    /// is the word (given as region letters) in the language of p ?
    pub fn member(&mut self, p: &P, w: &[usize]) -> bool {
        self.memo.clear();
        self.mem(p, w, 0, w.len())
    }

    // exists n in [lo, hi] (hi = None: unbounded) with w[i..j] in L(a)^n
    fn reps(&mut self, a: &P, w: &[usize], i: usize, j: usize, lo: u32, hi: Option<u32>) -> bool {
        if hi == Some(0) {
            return lo == 0 && i == j;
        }
        if lo == 0 && i == j {
            return true;
        }
        for m in i..=j {
            if self.mem(a, w, i, m) {
                if m == i {
                    // an empty factor only helps to reach the lower bound
                    if lo > 0 && self.reps(a, w, i, j, lo - 1, hi.map(|h| h - 1)) {
                        return true;
                    }
                } else if self.reps(a, w, m, j, lo.saturating_sub(1), hi.map(|h| h - 1)) {
                    return true;
                }
            }
        }
        false
    }

    fn seq(&mut self, v: &[Rc<P>], w: &[usize], i: usize, j: usize) -> bool {
        match v.len() {
            0 => i == j,
            _ => (i..=j).any(|m| self.mem(&v[0], w, i, m) && self.seq(&v[1..], w, m, j)),
        }
    }

    fn letter_in(&self, c: u32) -> usize {
        self.u.region_of(c)
    }

    fn mem(&mut self, p: &P, w: &[usize], i: usize, j: usize) -> bool {
        let key = (p as *const P, i, j);
        if let Some(&b) = self.memo.get(&key) {
            return b;
        }
        let k = self.u.k();
        let r = match p {
            P::None => false,
            P::Eps => i == j,
            P::All => true,
            P::AllChar => j == i + 1,
            P::SigPlus => j > i,
            P::Rng(l, h) => j == i + 1 && (*l as usize) <= w[i] && w[i] <= (*h as usize),
            P::Ch(c) => j == i + 1 && w[i] == self.letter_in(*c),
            P::Cs(l, h) => j == i + 1 && self.u.aligned_mask(*l, *h).unwrap() >> w[i] & 1 == 1,
            P::Str(s) => j - i == s.len() && s.iter().enumerate().all(|(x, &c)| w[i + x] == self.letter_in(c)),
            P::SRange(a, b) => a.len() == 1 && b.len() == 1 && a[0] <= b[0] && j == i + 1 && self.u.aligned_mask(a[0], b[0]).unwrap() >> w[i] & 1 == 1,
            P::Comp(a) => !self.mem(a, w, i, j),
            P::Star(a) => self.reps(a, w, i, j, 0, None),
            P::Plus(a) => self.reps(a, w, i, j, 1, None),
            P::Opt(a) => i == j || self.mem(a, w, i, j),
            P::Pow(a, n) => self.reps(a, w, i, j, *n, Some(*n)),
            P::Loop(a, x, y) => x <= y && self.reps(a, w, i, j, *x, Some(*y)),
            P::MkLoop(a, x, y) => self.reps(a, w, i, j, *x, Some(*y)),
            P::LoopInf(a, x) => self.reps(a, w, i, j, *x, None),
            P::Concat(a, b) => (i..=j).any(|m| self.mem(a, w, i, m) && self.mem(b, w, m, j)),
            P::Union(a, b) => self.mem(a, w, i, j) || self.mem(b, w, i, j),
            P::Inter(a, b) => self.mem(a, w, i, j) && self.mem(b, w, i, j),
            P::Diff(a, b) => self.mem(a, w, i, j) && !self.mem(b, w, i, j),
            P::ConcatL(v) => self.seq(v, w, i, j),
            P::UnionL(v) => v.iter().any(|x| self.mem(x, w, i, j)),
            P::InterL(v) => v.iter().all(|x| self.mem(x, w, i, j)),
            P::DiffL(a, v) => self.mem(a, w, i, j) && !v.iter().any(|x| self.mem(x, w, i, j)),
        };
        let _ = k;
        self.memo.insert(key, r);
        r
    }
}

// ---------------------------------------------------------------------------------------------
// running a program on the real code

fn sstr(w: &[u32]) -> SmtString {
    SmtString::from(w.to_vec())
}

/// through the methods of a given manager
pub fn build_mgr(u: &Universe, re: &mut ReManager, p: &P) -> RegLan {
    let rg = &u.regions;
    match p {
        P::None => re.empty(),
        P::Eps => re.epsilon(),
        P::All => re.full(),
        P::AllChar => re.all_chars(),
        P::SigPlus => re.sigma_plus(),
        P::Rng(l, h) => re.range(rg[*l as usize].0, rg[*h as usize].1),
        P::Ch(c) => re.char(*c),
        P::Cs(l, h) => re.char_set(CharSet::range(*l, *h)),
        P::Str(s) => re.str(&sstr(s)),
        P::SRange(a, b) => re.smt_range(&sstr(a), &sstr(b)),
        P::Comp(a) => {
            let x = build_mgr(u, re, a);
            re.complement(x)
        }
        P::Star(a) => {
            let x = build_mgr(u, re, a);
            re.star(x)
        }
        P::Plus(a) => {
            let x = build_mgr(u, re, a);
            re.plus(x)
        }
        P::Opt(a) => {
            let x = build_mgr(u, re, a);
            re.opt(x)
        }
        P::Pow(a, k) => {
            let x = build_mgr(u, re, a);
            re.exp(x, *k)
        }
        P::Loop(a, i, j) => {
            let x = build_mgr(u, re, a);
            re.smt_loop(x, *i, *j)
        }
        P::MkLoop(a, i, j) => {
            let x = build_mgr(u, re, a);
            re.mk_loop(x, LoopRange::finite(*i, *j))
        }
        P::LoopInf(a, i) => {
            let x = build_mgr(u, re, a);
            re.mk_loop(x, LoopRange::infinite(*i))
        }
        P::Concat(a, b) => {
            let x = build_mgr(u, re, a);
            let y = build_mgr(u, re, b);
            re.concat(x, y)
        }
        P::Union(a, b) => {
            let x = build_mgr(u, re, a);
            let y = build_mgr(u, re, b);
            re.union(x, y)
        }
        P::Inter(a, b) => {
            let x = build_mgr(u, re, a);
            let y = build_mgr(u, re, b);
            re.inter(x, y)
        }
        P::Diff(a, b) => {
            let x = build_mgr(u, re, a);
            let y = build_mgr(u, re, b);
            re.diff(x, y)
        }
        P::ConcatL(v) => {
            let ts: Vec<RegLan> = v.iter().map(|x| build_mgr(u, re, x)).collect();
            // the operands are handed over through iterators with exact and with inexact size hints
            match (ts.len() + 0) % 3 {
                0 => re.concat_list(ts),
                1 => re.concat_list(ts.into_iter().filter(|_| true)),
                _ => re.concat_list(ts.iter().flat_map(|t| std::iter::once(*t))),
            }
        }
        P::UnionL(v) => {
            let ts: Vec<RegLan> = v.iter().map(|x| build_mgr(u, re, x)).collect();
            // the operands are handed over through iterators with exact and with inexact size hints
            match (ts.len() + 0) % 3 {
                0 => re.union_list(ts),
                1 => re.union_list(ts.into_iter().filter(|_| true)),
                _ => re.union_list(ts.iter().flat_map(|t| std::iter::once(*t))),
            }
        }
        P::InterL(v) => {
            let ts: Vec<RegLan> = v.iter().map(|x| build_mgr(u, re, x)).collect();
            // the operands are handed over through iterators with exact and with inexact size hints
            match (ts.len() + 0) % 3 {
                0 => re.inter_list(ts),
                1 => re.inter_list(ts.into_iter().filter(|_| true)),
                _ => re.inter_list(ts.iter().flat_map(|t| std::iter::once(*t))),
            }
        }
        P::DiffL(a, v) => {
            let x = build_mgr(u, re, a);
            let ts: Vec<RegLan> = v.iter().map(|x| build_mgr(u, re, x)).collect();
            match (ts.len() + 0) % 3 {
                0 => re.diff_list(x, ts),
                1 => re.diff_list(x, ts.into_iter().filter(|_| true)),
                _ => re.diff_list(x, ts.iter().flat_map(|t| std::iter::once(*t))),
            }
        }
    }
}

/// through the SMT-LIB-named wrapper functions (thread-local manager)
pub fn build_wrap(u: &Universe, p: &P) -> RegLan {
    let rg = &u.regions;
    let sc = |c: u32| SmtString::from(c);
    match p {
        P::None => w::re_none(),
        P::Eps => w::str_to_re(&EMPTY),
        P::All => w::re_all(),
        P::AllChar => w::re_allchar(),
        P::SigPlus => w::re_plus(w::re_allchar()),
        P::Rng(l, h) => w::re_range(&sc(rg[*l as usize].0), &sc(rg[*h as usize].1)),
        P::Ch(c) => w::str_to_re(&sc(*c)),
        P::Cs(l, h) => w::re_range(&sc(*l), &sc(*h)),
        P::Str(s) => w::str_to_re(&sstr(s)),
        P::SRange(a, b) => w::re_range(&sstr(a), &sstr(b)),
        P::Comp(a) => w::re_comp(build_wrap(u, a)),
        P::Star(a) => w::re_star(build_wrap(u, a)),
        P::Plus(a) => w::re_plus(build_wrap(u, a)),
        P::Opt(a) => w::re_opt(build_wrap(u, a)),
        P::Pow(a, k) => w::re_power(build_wrap(u, a), *k),
        P::Loop(a, i, j) => w::re_loop(build_wrap(u, a), *i, *j),
        // no wrapper for unbounded loops with a lower bound: e^i . e*
        P::LoopInf(a, i) => w::re_concat(w::re_power(build_wrap(u, a), *i), w::re_star(build_wrap(u, a))),
        P::MkLoop(a, i, j) => w::re_loop(build_wrap(u, a), *i, *j),
        P::Concat(a, b) => w::re_concat(build_wrap(u, a), build_wrap(u, b)),
        P::Union(a, b) => w::re_union(build_wrap(u, a), build_wrap(u, b)),
        P::Inter(a, b) => w::re_inter(build_wrap(u, a), build_wrap(u, b)),
        P::Diff(a, b) => w::re_diff(build_wrap(u, a), build_wrap(u, b)),
        P::ConcatL(v) => {
            let ts: Vec<RegLan> = v.iter().map(|x| build_wrap(u, x)).collect();
            // the operands are handed over through iterators with exact and with inexact size hints
            match (ts.len() + 1) % 3 {
                0 => w::re_concat_list(ts),
                1 => w::re_concat_list(ts.into_iter().filter(|_| true)),
                _ => w::re_concat_list(ts.iter().flat_map(|t| std::iter::once(*t))),
            }
        }
        P::UnionL(v) => {
            let ts: Vec<RegLan> = v.iter().map(|x| build_wrap(u, x)).collect();
            // the operands are handed over through iterators with exact and with inexact size hints
            match (ts.len() + 1) % 3 {
                0 => w::re_union_list(ts),
                1 => w::re_union_list(ts.into_iter().filter(|_| true)),
                _ => w::re_union_list(ts.iter().flat_map(|t| std::iter::once(*t))),
            }
        }
        P::InterL(v) => {
            let ts: Vec<RegLan> = v.iter().map(|x| build_wrap(u, x)).collect();
            // the operands are handed over through iterators with exact and with inexact size hints
            match (ts.len() + 1) % 3 {
                0 => w::re_inter_list(ts),
                1 => w::re_inter_list(ts.into_iter().filter(|_| true)),
                _ => w::re_inter_list(ts.iter().flat_map(|t| std::iter::once(*t))),
            }
        }
        P::DiffL(a, v) => {
            let x = build_wrap(u, a);
            let ts: Vec<RegLan> = v.iter().map(|x| build_wrap(u, x)).collect();
            match (ts.len() + 1) % 3 {
                0 => w::re_diff_list(x, ts),
                1 => w::re_diff_list(x, ts.into_iter().filter(|_| true)),
                _ => w::re_diff_list(x, ts.iter().flat_map(|t| std::iter::once(*t))),
            }
        }
    }
}
