//! Enumerated families of construction programs (deterministic, indexable, simplest first).

use crate::prog::P;
use crate::universe::{Universe, A};
use aws_smt_strings::smt_strings::MAX_CHAR;
use std::sync::Arc as Rc;

#[derive(Clone, Copy, Debug, PartialEq, Eq)]
pub enum UOp {
    Comp,
    Star,
    Plus,
    Opt,
    Pow(u32),
    Loop(u32, u32),
    LoopInf(u32),
    MkLoop(u32, u32),
}

#[derive(Clone, Copy, Debug, PartialEq, Eq)]
pub enum BOp {
    Concat,
    Union,
    Inter,
    Diff,
}

pub const BOPS: [BOp; 4] = [BOp::Concat, BOp::Union, BOp::Inter, BOp::Diff];

pub fn uops_quick() -> Vec<UOp> {
    vec![UOp::Comp, UOp::Star, UOp::Plus, UOp::Opt, UOp::Pow(2), UOp::Loop(1, 2), UOp::Loop(0, 2), UOp::LoopInf(2)]
}
pub fn uops_thorough() -> Vec<UOp> {
    let mut v = uops_quick();
    v.extend([UOp::Pow(3), UOp::Loop(2, 3), UOp::Pow(0), UOp::Loop(2, 1)]);
    v
}
/// every power / loop with bounds <= 3 (including ill-formed i > j) and the unbounded ones
pub fn uops_all_loops() -> Vec<UOp> {
    let mut v = vec![];
    for k in 0..=3 {
        v.push(UOp::Pow(k));
        v.push(UOp::LoopInf(k));
    }
    for i in 0..=3 {
        for j in 0..=3 {
            v.push(UOp::Loop(i, j));
            if i <= j {
                v.push(UOp::MkLoop(i, j));
            }
        }
    }
    v
}

pub fn apply_u(op: UOp, a: &Rc<P>) -> P {
    let a = a.clone();
    match op {
        UOp::Comp => P::Comp(a),
        UOp::Star => P::Star(a),
        UOp::Plus => P::Plus(a),
        UOp::Opt => P::Opt(a),
        UOp::Pow(k) => P::Pow(a, k),
        UOp::Loop(i, j) => P::Loop(a, i, j),
        UOp::LoopInf(i) => P::LoopInf(a, i),
        UOp::MkLoop(i, j) => P::MkLoop(a, i, j),
    }
}
pub fn apply_b(op: BOp, a: &Rc<P>, b: &Rc<P>) -> P {
    let (a, b) = (a.clone(), b.clone());
    match op {
        BOp::Concat => P::Concat(a, b),
        BOp::Union => P::Union(a, b),
        BOp::Inter => P::Inter(a, b),
        BOp::Diff => P::Diff(a, b),
    }
}

pub trait Family {
    fn name(&self) -> String;
    fn universe(&self) -> &Universe;
    fn len(&self) -> usize;
    fn get(&self, i: usize) -> P;
    /// is program i a "level-1" program (gets the full-alphabet sweeps)?
    fn is_shallow(&self, _i: usize) -> bool {
        false
    }
    /// false for indices whose program already belongs to another family of the same run (kept disjoint so that
    /// every evaluated program is a distinct case)
    fn include(&self, _i: usize) -> bool {
        true
    }
}

/// atoms: none, eps, all and the given region ranges
pub fn atoms(ranges: &[(u8, u8)]) -> Vec<Rc<P>> {
    let mut v = vec![Rc::new(P::None), Rc::new(P::Eps), Rc::new(P::All)];
    for &(l, h) in ranges {
        v.push(Rc::new(P::Rng(l, h)));
    }
    v
}
pub fn all_ranges(k: usize) -> Vec<(u8, u8)> {
    let mut v = vec![];
    for l in 0..k {
        for h in l..k {
            v.push((l as u8, h as u8));
        }
    }
    v
}

/// level 1 over a set of atoms: atoms, every unary operator over an atom, every binary operator over two atoms
pub fn level1(atoms: &[Rc<P>], uops: &[UOp]) -> Vec<Rc<P>> {
    let mut v: Vec<Rc<P>> = atoms.to_vec();
    for a in atoms {
        for &op in uops {
            v.push(Rc::new(apply_u(op, a)));
        }
    }
    for a in atoms {
        for b in atoms {
            for op in BOPS {
                v.push(Rc::new(apply_b(op, a, b)));
            }
        }
    }
    v
}

/// The core pool: level 1 followed by all of level 2 (every unary op over a level-1 term, every
/// binary op over two of the first `lim` level-1 terms).
pub struct LevelFamily {
    pub name: String,
    pub u: Universe,
    pub l1: Vec<Rc<P>>,
    pub uops: Vec<UOp>,
    pub lim: usize,
    /// when set: only programs that use one of these operators (or one of these atoms) are part of the family
    pub only_with: Option<(Vec<UOp>, Vec<(u8, u8)>)>,
}

fn uses(p: &P, ops: &[UOp], atoms: &[(u8, u8)]) -> bool {
    let u = |a: &Rc<P>| uses(a, ops, atoms);
    match p {
        P::Rng(l, h) => atoms.contains(&(*l, *h)),
        P::Comp(a) => ops.contains(&UOp::Comp) || u(a),
        P::Star(a) => ops.contains(&UOp::Star) || u(a),
        P::Plus(a) => ops.contains(&UOp::Plus) || u(a),
        P::Opt(a) => ops.contains(&UOp::Opt) || u(a),
        P::Pow(a, k) => ops.contains(&UOp::Pow(*k)) || u(a),
        P::Loop(a, i, j) => ops.contains(&UOp::Loop(*i, *j)) || u(a),
        P::LoopInf(a, i) => ops.contains(&UOp::LoopInf(*i)) || u(a),
        P::MkLoop(a, i, j) => ops.contains(&UOp::MkLoop(*i, *j)) || u(a),
        P::Concat(a, b) | P::Union(a, b) | P::Inter(a, b) | P::Diff(a, b) => u(a) || u(b),
        _ => false,
    }
}

impl LevelFamily {
    pub fn new(name: &str, u: Universe, ranges: &[(u8, u8)], uops: Vec<UOp>, lim: usize) -> LevelFamily {
        let l1 = level1(&atoms(ranges), &uops);
        let lim = lim.min(l1.len());
        LevelFamily { name: name.to_string(), u, l1, uops, lim, only_with: None }
    }
}

impl Family for LevelFamily {
    fn name(&self) -> String {
        self.name.clone()
    }
    fn universe(&self) -> &Universe {
        &self.u
    }
    fn len(&self) -> usize {
        self.l1.len() + self.l1.len() * self.uops.len() + self.lim * self.lim * 4
    }
    fn get(&self, i: usize) -> P {
        let n1 = self.l1.len();
        if i < n1 {
            return (*self.l1[i]).clone();
        }
        let i = i - n1;
        let nu = n1 * self.uops.len();
        if i < nu {
            return apply_u(self.uops[i % self.uops.len()], &self.l1[i / self.uops.len()]);
        }
        let i = i - nu;
        let op = BOPS[i % 4];
        let ab = i / 4;
        apply_b(op, &self.l1[ab / self.lim], &self.l1[ab % self.lim])
    }
    fn is_shallow(&self, i: usize) -> bool {
        i < self.l1.len()
    }
    fn include(&self, i: usize) -> bool {
        match &self.only_with {
            None => true,
            Some((ops, atoms)) => uses(&self.get(i), ops, atoms),
        }
    }
}

/// every unary operator over every `stride`-th program of a base family (a level-3 layer)
pub struct UnaryOver {
    pub base: Box<dyn Family>,
    pub uops: Vec<UOp>,
    pub stride: usize,
}
impl Family for UnaryOver {
    fn name(&self) -> String {
        format!("unary-over({},stride {})", self.base.name(), self.stride)
    }
    fn universe(&self) -> &Universe {
        self.base.universe()
    }
    fn len(&self) -> usize {
        ((self.base.len() + self.stride - 1) / self.stride) * self.uops.len()
    }
    fn get(&self, i: usize) -> P {
        let b = Rc::new(self.base.get((i / self.uops.len()) * self.stride));
        apply_u(self.uops[i % self.uops.len()], &b)
    }
}

/// binary operators between a list of small terms and every `stride`-th program of a base family, both orders
pub struct BinaryWith {
    pub small: Vec<Rc<P>>,
    pub base: Box<dyn Family>,
    pub stride: usize,
    pub offset: usize,
}
impl BinaryWith {
    fn nbase(&self) -> usize {
        (self.base.len().saturating_sub(self.offset) + self.stride - 1) / self.stride
    }
}
impl Family for BinaryWith {
    fn name(&self) -> String {
        format!("binary({} small terms x {},stride {})", self.small.len(), self.base.name(), self.stride)
    }
    fn universe(&self) -> &Universe {
        self.base.universe()
    }
    fn len(&self) -> usize {
        self.nbase() * self.small.len() * 8
    }
    fn get(&self, i: usize) -> P {
        let op = BOPS[i % 4];
        let flip = (i / 4) % 2 == 1;
        let r = i / 8;
        let s = &self.small[r % self.small.len()];
        let b = Rc::new(self.base.get(self.offset + (r / self.small.len()) * self.stride));
        if flip {
            apply_b(op, &b, s)
        } else {
            apply_b(op, s, &b)
        }
    }
}

/// every `stride`-th program T of a base family inside two frames that isolate one fact about T: `eps & T` (empty
/// exactly when T does not contain the empty string) and `T & (eps + r)` for a one-character range r (what T does on
/// strings of length <= 1). A wrong nullable flag or first-character shortcut deep inside T that leaves T itself
/// non-empty shows here as a wrong emptiness verdict.
pub struct EpsProbe {
    pub base: Box<dyn Family>,
    pub stride: usize,
    pub range: (u8, u8),
}
impl Family for EpsProbe {
    fn name(&self) -> String {
        format!("eps-probes(eps & T, T & opt(r{}{})) over every {}th program of {}", self.range.0, self.range.1, self.stride, self.base.name())
    }
    fn universe(&self) -> &Universe {
        self.base.universe()
    }
    fn len(&self) -> usize {
        2 * ((self.base.len() + self.stride - 1) / self.stride)
    }
    fn get(&self, i: usize) -> P {
        let t = Rc::new(self.base.get((i / 2) * self.stride));
        if i % 2 == 0 {
            P::Inter(Rc::new(P::Eps), t)
        } else {
            P::Inter(t, Rc::new(P::Opt(Rc::new(P::Rng(self.range.0, self.range.1)))))
        }
    }
    fn include(&self, i: usize) -> bool {
        self.base.include((i / 2) * self.stride)
    }
}

/// an explicit list
pub struct ListFamily {
    pub name: String,
    pub u: Universe,
    pub items: Vec<P>,
    pub shallow: usize,
}
impl Family for ListFamily {
    fn name(&self) -> String {
        self.name.clone()
    }
    fn universe(&self) -> &Universe {
        &self.u
    }
    fn len(&self) -> usize {
        self.items.len()
    }
    fn get(&self, i: usize) -> P {
        self.items[i].clone()
    }
    fn is_shallow(&self, i: usize) -> bool {
        i < self.shallow
    }
}

pub const QUICK_RANGES: [(u8, u8); 6] = [(1, 1), (2, 2), (1, 2), (0, 5), (0, 1), (3, 5)];
pub const THOROUGH_RANGES: [(u8, u8); 9] = [(1, 1), (2, 2), (1, 2), (2, 3), (0, 5), (0, 1), (3, 5), (5, 5), (0, 0)];

pub fn core_quick() -> LevelFamily {
    LevelFamily::new("core-level2/u0 (9 atoms, 8 unary, 4 binary)", Universe::new(0), &QUICK_RANGES, uops_quick(), usize::MAX)
}
pub fn core_thorough() -> LevelFamily {
    LevelFamily::new("core-level2/u0 (12 atoms, 12 unary, 4 binary)", Universe::new(0), &THOROUGH_RANGES, uops_thorough(), usize::MAX)
}
/// the programs of core_thorough that use one of the four extra operators (the others are part of the wide family)
pub fn core_thorough_extra() -> LevelFamily {
    let mut f = core_thorough();
    f.name = "core-level2/u0 (12 atoms, 12 unary ops): the programs using pow 3, loop 2 3, pow 0 or the ill-formed loop 2 1".into();
    f.only_with = Some((vec![UOp::Pow(3), UOp::Loop(2, 3), UOp::Pow(0), UOp::Loop(2, 1)], vec![]));
    f
}
pub fn core_wide() -> LevelFamily {
    LevelFamily::new("wide-level2/u0 (all 21 region ranges, 8 unary, 4 binary)", Universe::new(0), &all_ranges(6), uops_quick(), usize::MAX)
}
/// the same construction over a different region decomposition (other boundary characters)
pub fn core_other_universe(id: usize, thorough: bool) -> LevelFamily {
    let ranges: Vec<(u8, u8)> = if thorough { vec![(0, 0), (1, 1), (0, 1), (1, 2), (3, 3), (2, 4), (5, 5), (0, 5), (3, 5)] } else { vec![(0, 0), (1, 1), (0, 1), (3, 3), (5, 5), (2, 4)] };
    LevelFamily::new(&format!("core-level2/u{} ({} atoms)", id, ranges.len() + 3), Universe::new(id), &ranges, uops_quick(), usize::MAX)
}

/// Side families: the constructors that are not in the core pool, each applied at level 1 and then
/// put under every unary operator and under every binary operator with a few partners.
pub fn side_family(thorough: bool) -> ListFamily {
    let u = Universe::new(0);
    let base = core_quick();
    let l1 = &base.l1;
    let mut side: Vec<Rc<P>> = vec![];
    // atoms
    let (a, b, c) = (A, A + 1, A + 2);
    side.push(Rc::new(P::AllChar));
    side.push(Rc::new(P::SigPlus));
    for ch in [a, b, c, MAX_CHAR] {
        side.push(Rc::new(P::Ch(ch)));
    }
    for (l, h) in [(a, a), (a, c), (b, c), (0, a - 1), (0, MAX_CHAR), (c + 1, MAX_CHAR), (MAX_CHAR, MAX_CHAR), (0, a)] {
        side.push(Rc::new(P::Cs(l, h)));
    }
    let words: Vec<Vec<u32>> = vec![vec![], vec![a], vec![b], vec![MAX_CHAR], vec![a, b], vec![a, a], vec![b, a], vec![a, b, a], vec![a, a, b], vec![a, b, c], vec![MAX_CHAR, a]];
    for w in &words {
        side.push(Rc::new(P::Str(w.clone())));
    }
    // re.range: well formed (region aligned), reversed, non-singleton arguments, empty arguments
    let ends: Vec<Vec<u32>> = vec![vec![], vec![a], vec![b], vec![c], vec![MAX_CHAR], vec![0], vec![a, b], vec![a - 1]];
    for s1 in &ends {
        for s2 in &ends {
            if s1.len() == 1 && s2.len() == 1 && s1[0] <= s2[0] && u.aligned_mask(s1[0], s2[0]).is_none() {
                continue;
            }
            side.push(Rc::new(P::SRange(s1.clone(), s2.clone())));
        }
    }
    for (l, h) in all_ranges(6) {
        // the six ranges of the core pool are not repeated here
        if !QUICK_RANGES.contains(&(l, h)) {
            side.push(Rc::new(P::Rng(l, h)));
        }
    }
    let n_atoms = side.len();
    // every loop/power operator over level-1 bodies
    let nbody = if thorough { l1.len() } else { 150 };
    let core_ops = uops_quick();
    for body in l1.iter().take(nbody) {
        for op in uops_all_loops() {
            // pow 2, loop 1 2, loop 0 2 and the unbounded loop from 2 over level-1 bodies are core level-2 programs
            if !core_ops.contains(&op) {
                side.push(Rc::new(apply_u(op, body)));
            }
        }
    }
    // n-ary lists of length 0..3
    let elems: Vec<Rc<P>> = {
        let mut e: Vec<Rc<P>> = l1.iter().take(9).cloned().collect();
        e.push(Rc::new(P::SigPlus));
        let extra = if thorough { 14 } else { 5 };
        e.extend(l1.iter().skip(9).step_by(29).take(extra).cloned());
        e
    };
    let mut lists: Vec<Vec<Rc<P>>> = vec![vec![]];
    let mut cur: Vec<Vec<Rc<P>>> = vec![vec![]];
    for _ in 0..3 {
        let mut nx = vec![];
        for s in &cur {
            for e in &elems {
                let mut t = s.clone();
                t.push(e.clone());
                nx.push(t);
            }
        }
        lists.extend(nx.iter().cloned());
        cur = nx;
    }
    for l in &lists {
        side.push(Rc::new(P::ConcatL(l.clone())));
        side.push(Rc::new(P::UnionL(l.clone())));
        side.push(Rc::new(P::InterL(l.clone())));
        if !l.is_empty() {
            side.push(Rc::new(P::DiffL(l[0].clone(), l[1..].to_vec())));
        }
    }
    // place every side term under every operator once more
    let partners: Vec<Rc<P>> = {
        let idx: Vec<usize> = if thorough { vec![0, 1, 2, 3, 5, 6, 9, 12, 17, 40, 90, 200] } else { vec![1, 3, 5, 12, 90] };
        idx.into_iter().map(|i| l1[i].clone()).collect()
    };
    let mut items: Vec<P> = side.iter().map(|p| (**p).clone()).collect();
    let n_side = items.len();
    // only the atoms get the full-alphabet sweeps
    let shallow = n_atoms;
    let uops = uops_quick();
    for (k, s) in side.iter().enumerate() {
        for &op in &uops {
            items.push(apply_u(op, s));
        }
        // binary wrapping for the atoms, for all lists, and for a stride of the loop family
        if k < n_atoms || thorough || k % 7 == 0 {
            for t in &partners {
                for op in BOPS {
                    items.push(apply_b(op, s, t));
                    items.push(apply_b(op, t, s));
                }
            }
        }
    }
    ListFamily { name: format!("side families/u0 ({} side terms: char, char_set, str, smt_range, allchar, sigma_plus, all ranges, all loops<=3, n-ary lists; each also under every operator)", n_side), u, items, shallow }
}

/// classic larger expressions (the suite's 47-state example and friends), for C19/C02
pub fn classics() -> ListFamily {
    let u = Universe::new(0);
    let r = |l: u8, h: u8| Rc::new(P::Rng(l, h));
    let a = r(1, 1);
    let b = r(2, 2);
    let ab = r(1, 2);
    let sig = r(0, 5);
    let all = Rc::new(P::All);
    let mut items = vec![];
    // (a|b)* a (a|b)^k : 2^(k+1) states
    for k in 1..=5 {
        let tail = Rc::new(P::Pow(ab.clone(), k));
        items.push(P::Concat(Rc::new(P::Star(ab.clone())), Rc::new(P::Concat(a.clone(), tail))));
    }
    // Sigma* a Sigma^k ∩ Sigma* b Sigma^j
    for k in 1..=3 {
        for j in 1..=3 {
            let x = Rc::new(P::Concat(all.clone(), Rc::new(P::Concat(a.clone(), Rc::new(P::Pow(sig.clone(), k))))));
            let y = Rc::new(P::Concat(all.clone(), Rc::new(P::Concat(b.clone(), Rc::new(P::Pow(sig.clone(), j))))));
            items.push(P::Inter(x.clone(), y.clone()));
            items.push(P::Diff(x.clone(), y.clone()));
            items.push(P::Union(x, Rc::new(P::Comp(y))));
        }
    }
    // nested loops and complements
    let abstar = Rc::new(P::Star(Rc::new(P::Concat(a.clone(), b.clone()))));
    items.push(P::Loop(Rc::new(P::Union(abstar.clone(), a.clone())), 2, 3));
    items.push(P::Comp(Rc::new(P::Concat(Rc::new(P::Comp(abstar.clone())), Rc::new(P::Loop(ab.clone(), 1, 3))))));
    items.push(P::Inter(Rc::new(P::LoopInf(Rc::new(P::Pow(ab.clone(), 2)), 1)), Rc::new(P::LoopInf(Rc::new(P::Pow(ab.clone(), 3)), 1))));
    items.push(P::Loop(Rc::new(P::Loop(a.clone(), 2, 3)), 2, 3));
    items.push(P::Loop(Rc::new(P::Loop(a.clone(), 1, 3)), 0, 3));
    items.push(P::LoopInf(Rc::new(P::Loop(Rc::new(P::Opt(ab.clone())), 2, 3)), 2));
    // medium-size automata with many equivalent or nearly equivalent states (counters, unions of powers)
    let pw = |x: &Rc<P>, k: u32| Rc::new(P::Pow(x.clone(), k));
    items.push(P::Concat(Rc::new(P::UnionL(vec![pw(&sig, 3), pw(&sig, 7), pw(&sig, 16)])), Rc::new(P::Concat(a.clone(), all.clone()))));
    items.push(P::Concat(Rc::new(P::Inter(Rc::new(P::Star(pw(&b, 5))), Rc::new(P::Star(pw(&b, 7))))), a.clone()));
    for k in [17u32, 20, 33, 40] {
        items.push(P::Concat(Rc::new(P::Star(pw(&b, k))), a.clone()));
        items.push(P::Concat(pw(&sig, k), Rc::new(P::Concat(a.clone(), all.clone()))));
        items.push(P::Loop(ab.clone(), 0, k));
        items.push(P::Comp(Rc::new(P::Concat(Rc::new(P::Star(pw(&ab, k))), b.clone()))));
    }
    ListFamily { name: "classics/u0 (exponential suffix languages, products, nested loops, counters with 17-40 states)".into(), u, items, shallow: 0 }
}

/// A level-3 layer with a binary operator on top: a hand-picked set of small terms (atoms, complements and
/// stars of the range atoms, a few binary level-1 terms) combined, in both orders, with every level-1 term
/// and every unary level-2 term of the quick core pool.
pub fn level3_slice(thorough: bool) -> BinaryWith {
    let q = core_quick();
    let mut small: Vec<Rc<P>> = q.l1.iter().take(9).cloned().collect();
    for a in q.l1.iter().take(9).skip(3) {
        small.push(Rc::new(P::Comp(a.clone())));
        small.push(Rc::new(P::Star(a.clone())));
    }
    let r = |l: u8, h: u8| Rc::new(P::Rng(l, h));
    small.push(Rc::new(P::Concat(r(1, 1), r(2, 2))));
    small.push(Rc::new(P::Union(r(1, 1), r(2, 2))));
    small.push(Rc::new(P::Concat(Rc::new(P::All), r(1, 1))));
    small.push(Rc::new(P::Concat(r(1, 1), Rc::new(P::All))));
    small.push(Rc::new(P::Inter(r(1, 2), r(0, 1))));
    small.push(Rc::new(P::Opt(r(1, 1))));
    small.push(Rc::new(P::Plus(r(1, 2))));
    small.push(Rc::new(P::Pow(r(0, 5), 2)));
    small.push(Rc::new(P::Comp(Rc::new(P::Eps))));
    small.push(Rc::new(P::Plus(r(0, 5))));
    small.push(Rc::new(P::LoopInf(r(0, 5), 2)));
    small.push(Rc::new(P::AllChar));
    small.push(Rc::new(P::Concat(r(1, 1), Rc::new(P::Concat(Rc::new(P::Plus(r(0, 5))), r(2, 2))))));
    if thorough {
        small.extend(q.l1.iter().skip(81).step_by(7).take(40).cloned());
    }
    let n1 = q.l1.len();
    let nu = q.uops.len();
    let base = LevelFamily { name: "unary level 2 of the quick core".into(), u: q.u.clone(), l1: q.l1.clone(), uops: q.uops.clone(), lim: 0, only_with: None };
    debug_assert_eq!(base.len(), n1 + n1 * nu);
    // offset n1: binary operators over two level-1 terms are level-2 programs of the core pool already
    BinaryWith { small, base: Box::new(base), stride: 1, offset: n1 }
}

/// A level-3 layer with a binary operator over two *binary* level-2 programs: operands of the shape
/// op(u(x), y) / op(y, u(x)) with a unary operator hidden one level down.
pub struct PairFamily {
    pub u: Universe,
    pub m: Vec<Rc<P>>,
}
impl Family for PairFamily {
    fn name(&self) -> String {
        format!("level3-pairs/u0 (binary operator over two of {} programs of the shape op(unary(atom), atom))", self.m.len())
    }
    fn universe(&self) -> &Universe {
        &self.u
    }
    fn len(&self) -> usize {
        self.m.len() * self.m.len() * 4
    }
    fn get(&self, i: usize) -> P {
        let op = BOPS[i % 4];
        let ab = i / 4;
        apply_b(op, &self.m[ab / self.m.len()], &self.m[ab % self.m.len()])
    }
}
pub fn level3_pairs(thorough: bool) -> PairFamily {
    let atoms: Vec<Rc<P>> = if thorough { QUICK_RANGES.iter().map(|&(l, h)| Rc::new(P::Rng(l, h))).collect() } else { [(1u8, 1u8), (2, 2), (1, 2), (0, 5)].iter().map(|&(l, h)| Rc::new(P::Rng(l, h))).collect() };
    let uops: Vec<UOp> = if thorough { uops_quick() } else { vec![UOp::Comp, UOp::Star, UOp::Plus] };
    let bops: Vec<BOp> = if thorough { BOPS.to_vec() } else { vec![BOp::Concat, BOp::Union] };
    let mut m = vec![];
    for &op in &bops {
        for &uo in &uops {
            for x in &atoms {
                for y in &atoms {
                    let ux = Rc::new(apply_u(uo, x));
                    m.push(Rc::new(apply_b(op, &ux, y)));
                    m.push(Rc::new(apply_b(op, y, &ux)));
                }
            }
        }
    }
    PairFamily { u: Universe::new(0), m }
}

/// nested loops with bounds beyond 3 (the flattening rule (R^[a,b])^[c,d] -> R^[ac,bd] is only valid when the product
/// is gap-free), alone and under complement / intersection / concatenation
pub fn nested_loops(thorough: bool) -> ListFamily {
    let u = Universe::new(0);
    let r = |l: u8, h: u8| Rc::new(P::Rng(l, h));
    let bodies: Vec<Rc<P>> = vec![r(1, 1), r(1, 2), Rc::new(P::Concat(r(1, 1), r(2, 2))), Rc::new(P::Union(r(1, 1), Rc::new(P::Concat(r(2, 2), r(2, 2))))), Rc::new(P::Opt(r(1, 1)))];
    let nb = if thorough { 5 } else { 3 };
    let imax = if thorough { 7 } else { 6 };
    let mut inner: Vec<UOp> = vec![];
    for i in 0..=imax {
        for j in i..=imax {
            if j >= 2 && (i, j) != (0, 0) {
                inner.push(UOp::MkLoop(i, j));
            }
        }
        if i >= 1 {
            inner.push(UOp::LoopInf(i));
        }
    }
    let mut outer: Vec<UOp> = vec![UOp::Star, UOp::Plus, UOp::Opt];
    let omax = if thorough { 4 } else { 3 };
    for c in 0..=omax {
        for d in c..=omax {
            if d >= 1 && (c, d) != (1, 1) {
                outer.push(UOp::Loop(c, d));
            }
        }
        outer.push(UOp::LoopInf(c));
    }
    let mut items = vec![];
    for b in bodies.iter().take(nb) {
        for &i in &inner {
            let x = Rc::new(apply_u(i, b));
            for &o in &outer {
                let y = Rc::new(apply_u(o, &x));
                items.push((*y).clone());
                if matches!(o, UOp::Star | UOp::Plus | UOp::Loop(1, 2) | UOp::Loop(2, 3) | UOp::LoopInf(2)) {
                    items.push(P::Comp(y.clone()));
                    items.push(P::Inter(y.clone(), Rc::new(P::Pow(r(0, 5), 3))));
                    items.push(P::Concat(r(2, 2), y.clone()));
                }
            }
        }
    }
    ListFamily { name: format!("nested loops/u0 (inner bounds <= {}, outer bounds <= {}, {} bodies; also under complement, intersection, concatenation)", imax, omax, nb), u, items, shallow: 0 }
}

/// expressions with more than a thousand derivatives (size-dependent code paths in compile / try_compile)
pub fn big_classics() -> ListFamily {
    let u = Universe::new(0);
    let r = |l: u8, h: u8| Rc::new(P::Rng(l, h));
    let items = vec![
        P::Loop(r(1, 1), 0, 1100),
        P::Loop(r(1, 2), 1020, 1030),
        P::Inter(Rc::new(P::Loop(r(0, 5), 0, 600)), Rc::new(P::Comp(Rc::new(P::Concat(Rc::new(P::All), Rc::new(P::Concat(r(1, 1), Rc::new(P::Concat(r(2, 2), Rc::new(P::All)))))))))),
    ];
    ListFamily { name: "big classics/u0 (1000+ derivatives)".into(), u, items, shallow: 0 }
}

/// the complement of every binary level-2 program of the quick core (a level-3 layer: complement interacts with
/// every rewriting shortcut; the thorough tier has all unary operators over all of level 2 instead)
pub struct CompOverLevel2 {
    pub base: LevelFamily,
    pub off: usize,
}
impl Family for CompOverLevel2 {
    fn name(&self) -> String {
        "complement of every binary level-2 program of the quick core".into()
    }
    fn universe(&self) -> &Universe {
        self.base.universe()
    }
    fn len(&self) -> usize {
        self.base.len() - self.off
    }
    fn get(&self, i: usize) -> P {
        P::Comp(Rc::new(self.base.get(self.off + i)))
    }
}
pub fn comp_over_level2() -> CompOverLevel2 {
    let base = core_quick();
    let off = base.l1.len() + base.l1.len() * base.uops.len();
    CompOverLevel2 { base, off }
}

/// states with many explicit intervals: unions of two-letter words with distinct first letters over twelve adjacent
/// single characters (universe 3), alone and under the usual operators
/// a short word next to a pattern with two (or three) rigid blocks between Sigma*: the union constructor's subsumption
/// test must not match two blocks on overlapping (or the same) characters of the word, nor out of order
pub fn overlap_frames() -> ListFamily {
    let u = Universe::new(0);
    let r = |l: u8, h: u8| Rc::new(P::Rng(l, h));
    let all = Rc::new(P::All);
    // blocks: sequences of 1..2 range atoms over {a, b, [a-b]}
    let atoms = [r(1, 1), r(2, 2), r(1, 2)];
    let mut blocks: Vec<Vec<Rc<P>>> = vec![];
    for x in &atoms {
        blocks.push(vec![x.clone()]);
        for y in &atoms[..2] {
            blocks.push(vec![x.clone(), y.clone()]);
        }
    }
    // words: sequences of 1..3 letters over {a, b}
    let letters = [r(1, 1), r(2, 2)];
    let mut words: Vec<Vec<Rc<P>>> = vec![];
    for x in &letters {
        words.push(vec![x.clone()]);
        for y in &letters {
            words.push(vec![x.clone(), y.clone()]);
            for z in &letters {
                words.push(vec![x.clone(), y.clone(), z.clone()]);
            }
        }
    }
    let cat = |v: Vec<Rc<P>>| -> Rc<P> {
        if v.len() == 1 {
            v[0].clone()
        } else {
            Rc::new(P::ConcatL(v))
        }
    };
    let mut items = vec![];
    for b1 in &blocks {
        for b2 in &blocks {
            let mut pat: Vec<Rc<P>> = vec![all.clone()];
            pat.extend(b1.iter().cloned());
            pat.push(all.clone());
            pat.extend(b2.iter().cloned());
            pat.push(all.clone());
            let pat = Rc::new(P::ConcatL(pat));
            for w in &words {
                let w = cat(w.clone());
                items.push(P::Union(w.clone(), pat.clone()));
                items.push(P::Union(pat.clone(), w.clone()));
            }
            // the pattern itself (its derivatives build unions of its own suffixes), and anchored variants
            items.push((*pat).clone());
            let mut anch: Vec<Rc<P>> = b1.clone();
            anch.push(all.clone());
            anch.extend(b2.iter().cloned());
            anch.push(all.clone());
            items.push(P::Union(cat(b1.clone()), Rc::new(P::ConcatL(anch))));
        }
    }
    // the same with blocks that are not ranges: a non-nullable term N on both sides of sigma* next to N alone (a prefix /
    // suffix test that lets the two occurrences overlap inside one N), also under an optional prefix
    let a = r(1, 1);
    let b = r(2, 2);
    let ns: Vec<Rc<P>> = vec![
        Rc::new(P::Plus(a.clone())),
        Rc::new(P::Concat(Rc::new(P::Star(a.clone())), b.clone())),
        Rc::new(P::Plus(Rc::new(P::Concat(Rc::new(P::Star(a.clone())), b.clone())))),
        Rc::new(P::Loop(a.clone(), 1, 2)),
        Rc::new(P::Concat(a.clone(), b.clone())),
        Rc::new(P::Union(a.clone(), Rc::new(P::Concat(b.clone(), b.clone())))),
        Rc::new(P::Concat(a.clone(), Rc::new(P::Opt(b.clone())))),
        Rc::new(P::Inter(Rc::new(P::Plus(r(1, 2))), Rc::new(P::Comp(b.clone())))),
    ];
    for n in &ns {
        let frame = Rc::new(P::ConcatL(vec![n.clone(), all.clone(), n.clone()]));
        items.push(P::Union(n.clone(), frame.clone()));
        items.push(P::Union(frame.clone(), n.clone()));
        items.push(P::Concat(Rc::new(P::Opt(Rc::new(P::ConcatL(vec![a.clone(), n.clone(), all.clone()])))), n.clone()));
        items.push(P::Concat(Rc::new(P::Opt(Rc::new(P::ConcatL(vec![n.clone(), all.clone()])))), n.clone()));
        for m in &ns {
            items.push(P::Union(m.clone(), Rc::new(P::ConcatL(vec![n.clone(), all.clone(), m.clone()]))));
            items.push(P::Union(m.clone(), Rc::new(P::ConcatL(vec![m.clone(), all.clone(), n.clone()]))));
        }
    }
    ListFamily { name: "overlap frames/u0 (word + Sigma* block Sigma* block Sigma*, blocks of 1-2 ranges, words of 1-3 letters; N + N Sigma* N for eight non-range terms N)".into(), u, items, shallow: 0 }
}

/// different spellings of one literal (character list, two halves, runs as powers, a repeated block as a power) in
/// intersections, differences and unions: a shortcut that treats syntactically different constant strings as different
/// strings, or that spells a constant wrongly, shows as a wrong language
pub fn spellings() -> ListFamily {
    let u = Universe::new(0);
    let ch = |i: usize| Rc::new(P::Rng(1 + i as u8, 1 + i as u8)); // letters a, b
    let mut words: Vec<Vec<usize>> = vec![];
    for len in 2..=4usize {
        for code in 0..(1usize << len) {
            words.push((0..len).map(|i| (code >> i) & 1).collect());
        }
    }
    let spell = |w: &Vec<usize>| -> Vec<Rc<P>> {
        let mut out: Vec<Rc<P>> = vec![Rc::new(P::ConcatL(w.iter().map(|&x| ch(x)).collect()))];
        // left- and right-nested binary concatenations
        let mut l = ch(w[0]);
        for &x in &w[1..] {
            l = Rc::new(P::Concat(l, ch(x)));
        }
        out.push(l);
        let mut r = ch(w[w.len() - 1]);
        for &x in w[..w.len() - 1].iter().rev() {
            r = Rc::new(P::Concat(ch(x), r));
        }
        out.push(r);
        // runs as powers
        let mut runs: Vec<(usize, u32)> = vec![];
        for &x in w {
            match runs.last_mut() {
                Some(q) if q.0 == x => q.1 += 1,
                _ => runs.push((x, 1)),
            }
        }
        if runs.iter().any(|q| q.1 > 1) {
            out.push(Rc::new(P::ConcatL(runs.iter().map(|&(x, k)| if k == 1 { ch(x) } else { Rc::new(P::Pow(ch(x), k)) }).collect())));
        }
        // a repeated block as a power: w = v v
        if w.len() % 2 == 0 && w[..w.len() / 2] == w[w.len() / 2..] {
            let v: Vec<Rc<P>> = w[..w.len() / 2].iter().map(|&x| ch(x)).collect();
            let block = if v.len() == 1 { v[0].clone() } else { Rc::new(P::ConcatL(v)) };
            out.push(Rc::new(P::Pow(block.clone(), 2)));
            out.push(Rc::new(P::Loop(block.clone(), 2, 2)));
            out.push(Rc::new(P::Concat(block.clone(), block)));
        }
        out
    };
    let mut items = vec![];
    for (wi, w) in words.iter().enumerate() {
        let sp = spell(w);
        for i in 0..sp.len() {
            for j in 0..sp.len() {
                if i != j {
                    items.push(P::Inter(sp[i].clone(), sp[j].clone()));
                    items.push(P::Diff(sp[i].clone(), sp[j].clone()));
                }
            }
            items.push(P::Concat(sp[i].clone(), ch(1)));
            items.push(P::Concat(ch(0), sp[i].clone()));
            items.push(P::Inter(sp[i].clone(), Rc::new(P::Concat(Rc::new(P::All), ch(w[w.len() - 1])))));
            // against a spelling of another word of the same length
            let w2 = &words[(wi + 1) % words.len()];
            if w2.len() == w.len() {
                let sp2 = spell(w2);
                let o = sp2[(i + 1) % sp2.len()].clone();
                items.push(P::Inter(sp[i].clone(), o.clone()));
                items.push(P::Union(sp[i].clone(), o.clone()));
                items.push(P::Diff(sp[i].clone(), o));
            }
        }
    }
    ListFamily { name: "spellings/u0 (every word of 2-4 letters over {a,b} spelled in several ways: intersections, differences, unions, prefixes)".into(), u, items, shallow: 0 }
}

/// two loops over the same body with different counters, combined: X^[a,b] & X^[c,d] is X^([a,b] & [c,d]) only when
/// the words of X cannot be split in two ways; bodies here can (a + aa, eps + b, not-a, sigma* a, a?)
pub fn same_body_loops() -> ListFamily {
    let u = Universe::new(0);
    let r = |l: u8, h: u8| Rc::new(P::Rng(l, h));
    let (a, b) = (r(1, 1), r(2, 2));
    let bodies: Vec<Rc<P>> = vec![
        Rc::new(P::Union(a.clone(), Rc::new(P::Concat(a.clone(), a.clone())))),
        Rc::new(P::Union(Rc::new(P::Eps), b.clone())),
        Rc::new(P::Comp(a.clone())),
        Rc::new(P::Concat(Rc::new(P::All), a.clone())),
        Rc::new(P::Opt(a.clone())),
        Rc::new(P::Union(a.clone(), b.clone())),
        Rc::new(P::Concat(a.clone(), Rc::new(P::Star(b.clone())))),
        r(1, 2),
        Rc::new(P::Plus(a.clone())),
    ];
    let counters: Vec<(u32, Option<u32>)> = vec![(2, Some(2)), (3, Some(3)), (1, Some(2)), (2, Some(3)), (3, Some(4)), (0, Some(1)), (2, None), (1, None)];
    let lp = |x: &Rc<P>, c: (u32, Option<u32>)| -> Rc<P> {
        match c.1 {
            Some(j) if j == c.0 => Rc::new(P::Pow(x.clone(), j)),
            Some(j) => Rc::new(P::Loop(x.clone(), c.0, j)),
            None => Rc::new(P::LoopInf(x.clone(), c.0)),
        }
    };
    let mut items = vec![];
    for x in &bodies {
        for (i, &c1) in counters.iter().enumerate() {
            for &c2 in counters.iter().skip(i + 1) {
                let (l1, l2) = (lp(x, c1), lp(x, c2));
                items.push(P::Inter(l1.clone(), l2.clone()));
                items.push(P::Diff(l1.clone(), l2.clone()));
                items.push(P::Diff(l2.clone(), l1.clone()));
                items.push(P::Union(l1.clone(), l2.clone()));
                items.push(P::Concat(l1, l2));
            }
        }
        // a zero power and a zero loop of a loop
        for &c in &counters {
            items.push(P::Pow(lp(x, c), 0));
            items.push(P::Loop(lp(x, c), 0, 0));
            items.push(P::Concat(Rc::new(P::Pow(lp(x, c), 0)), a.clone()));
        }
    }
    ListFamily { name: "same-body loops/u0 (X^[a,b] op X^[c,d] for nine bodies whose words split ambiguously, eight counters; zero powers of loops)".into(), u, items, shallow: 0 }
}

pub fn many_ranges() -> ListFamily {
    let u = Universe::new(3);
    let ch = |i: u8| Rc::new(P::Rng(i, i)); // regions 1..=12 are the letters
    let mut items = vec![];
    for n in [9usize, 10, 12] {
        for shift in [1usize, 5] {
            // word i = letter_i . letter_{(i+shift) mod n}
            let words: Vec<Rc<P>> = (0..n).map(|i| Rc::new(P::Concat(ch(1 + i as u8), ch(1 + ((i + shift) % n) as u8)))).collect();
            let un = Rc::new(P::UnionL(words.clone()));
            items.push((*un).clone());
            items.push(P::Star(un.clone()));
            items.push(P::Comp(un.clone()));
            items.push(P::Loop(un.clone(), 1, 2));
            items.push(P::Inter(Rc::new(P::Comp(un.clone())), Rc::new(P::Pow(Rc::new(P::AllChar), 2))));
            items.push(P::Concat(un.clone(), Rc::new(P::Opt(un.clone()))));
            // the same with ranges of two letters and a gap
            let pairs: Vec<Rc<P>> = (0..n / 2).map(|i| Rc::new(P::Concat(Rc::new(P::Rng(1 + 2 * i as u8, 2 + 2 * i as u8)), ch(1 + ((2 * i + shift) % n) as u8)))).collect();
            items.push(P::UnionL(pairs.clone()));
            items.push(P::Star(Rc::new(P::UnionL(pairs))));
        }
    }
    // every single letter followed by a different letter each: twelve classes in one state
    let all12: Vec<Rc<P>> = (0..12u8).map(|i| Rc::new(P::Concat(ch(1 + i), ch(1 + (i * 5 + 3) % 12)))).collect();
    items.push(P::UnionL(all12.clone()));
    items.push(P::Diff(Rc::new(P::Pow(Rc::new(P::Rng(1, 12)), 2)), Rc::new(P::UnionL(all12))));
    ListFamily { name: "many ranges/u3 (states with 9-12 explicit intervals)".into(), u, items, shallow: 0 }
}

/// thorough: binary operators between EVERY level-1 term and every unary level-2 term of the quick core, both orders
/// (the quick level-3 slice uses 39 hand-picked small terms instead of all 405)
pub fn level3_full() -> BinaryWith {
    let q = core_quick();
    let n1 = q.l1.len();
    let base = LevelFamily { name: "unary level 2 of the quick core".into(), u: q.u.clone(), l1: q.l1.clone(), uops: q.uops.clone(), lim: 0, only_with: None };
    BinaryWith { small: q.l1.clone(), base: Box::new(base), stride: 1, offset: n1 }
}

/// the small terms of the quick level-3 slice that are not level-1 terms, against every unary level-2 term
pub fn level3_extra() -> BinaryWith {
    let q = core_quick();
    let n1 = q.l1.len();
    let r = |l: u8, h: u8| Rc::new(P::Rng(l, h));
    let small: Vec<Rc<P>> = vec![Rc::new(P::AllChar), Rc::new(P::Concat(r(1, 1), Rc::new(P::Concat(Rc::new(P::Plus(r(0, 5))), r(2, 2)))))];
    let base = LevelFamily { name: "unary level 2 of the quick core".into(), u: q.u.clone(), l1: q.l1.clone(), uops: q.uops.clone(), lim: 0, only_with: None };
    BinaryWith { small, base: Box::new(base), stride: 1, offset: n1 }
}
