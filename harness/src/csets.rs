//! Interval algebra: C11 (CharPartition queries), C12 (merge_partitions), C20 (CharSet), C15 (LoopRange).
//! Everything is enumerated over a *compressed line*: n positions covering [0, MAX_CHAR], all of them single
//! characters except one fat position in the middle. The code under test only compares end points with
//! <, <=, == and adds/subtracts 1, so the line realises every order/adjacency pattern of that many end points,
//! including both borders of the alphabet. The oracle is set arithmetic over positions.

use crate::infra::*;
use crate::strs::SimpleEngine;
use aws_smt_strings::character_sets::*;
use aws_smt_strings::loop_ranges::LoopRange;
use aws_smt_strings::smt_strings::MAX_CHAR;
use serde_json::{json, Value};
use std::cmp::Ordering;
use std::collections::BTreeSet;

const M: u32 = MAX_CHAR;
pub const NB: usize = 64;

/// the compressed line with n positions (n >= 5): 0,1,..,k-1, [k .. M-(n-k-1)], ..., M-1, M
thread_local! {
    /// a line put in place of the compressed line for the duration of one call (landmark windows of C11)
    static LINE_OVERRIDE: std::cell::RefCell<Option<Vec<(u32, u32)>>> = const { std::cell::RefCell::new(None) };
}
pub fn with_line<T>(line: Vec<(u32, u32)>, f: impl FnOnce() -> T) -> T {
    LINE_OVERRIDE.with(|l| *l.borrow_mut() = Some(line));
    let r = f();
    LINE_OVERRIDE.with(|l| *l.borrow_mut() = None);
    r
}
/// window w of the landmark line: seven consecutive landmark positions, everything below and everything above
/// them as one fat position each (9 positions; fewer at the two ends)
pub fn landmark_window(w: usize) -> Vec<(u32, u32)> {
    let lm = landmark_units();
    let w = w.min(lm.len() - 7);
    let mut v = vec![];
    if w > 0 {
        v.push((0, lm[w].0 - 1));
    }
    v.extend(lm[w..w + 7].iter().copied());
    if w + 7 < lm.len() {
        v.push((lm[w + 7].0, M));
    }
    v
}
pub fn units(n: usize) -> Vec<(u32, u32)> {
    if let Some(l) = LINE_OVERRIDE.with(|l| l.borrow().clone()) {
        if l.len() == n {
            return l;
        }
    }
    if n == landmark_units().len() {
        return landmark_units();
    }
    let left = n / 2 + (n % 2); // positions before the fat one (incl. 0)
    let right = n - left - 1;
    let mut v = vec![];
    for i in 0..left as u32 {
        v.push((i, i));
    }
    v.push((left as u32, M - right as u32));
    for i in (0..right as u32).rev() {
        v.push((M - i, M - i));
    }
    v
}

/// a second line for the interval algebra: single positions at the values where encodings change (ASCII / Latin-1 /
/// 2- and 3-byte UTF-8, the surrogate block, U+FFFD, the BMP border, plane borders) and one fat position between two
/// landmarks that are not adjacent. Nothing in the statement singles these values out; code that treats SMT characters
/// as Rust chars or bytes does.
pub fn landmark_units() -> Vec<(u32, u32)> {
    let marks: [u32; 16] = [0x7F, 0x80, 0xFF, 0x100, 0x7FF, 0x800, 0xD7FF, 0xD800, 0xDFFF, 0xE000, 0xFFFD, 0xFFFE, 0xFFFF, 0x10000, 0x1FFFF, 0x20000];
    let mut v: Vec<(u32, u32)> = vec![(0, marks[0] - 1)];
    for (i, &m) in marks.iter().enumerate() {
        v.push((m, m));
        let next = if i + 1 < marks.len() { marks[i + 1] } else { M + 1 };
        if next > m + 1 {
            v.push((m + 1, next - 1));
        }
    }
    v
}

type Part = Vec<(usize, usize)>;

/// all sets of pairwise disjoint intervals whose end points are position boundaries
pub fn enum_parts(n: usize) -> Vec<Part> {
    fn rec(pos: usize, n: usize, cur: &mut Part, open: bool, out: &mut Vec<Part>) {
        if pos == n {
            out.push(cur.clone());
            return;
        }
        rec(pos + 1, n, cur, false, out); // gap
        cur.push((pos, pos)); // start a new interval
        rec(pos + 1, n, cur, true, out);
        cur.pop();
        if open {
            // extend the open interval
            let l = cur.len() - 1;
            cur[l].1 = pos;
            rec(pos + 1, n, cur, true, out);
            cur[l].1 = pos - 1;
        }
    }
    let mut out = vec![];
    rec(0, n, &mut vec![], false, &mut out);
    out
}

fn class_of_unit(p: &Part, u: usize) -> Option<usize> {
    p.iter().position(|&(i, j)| i <= u && u <= j)
}

fn query_values(us: &[(u32, u32)]) -> Vec<u32> {
    let mut v: Vec<u32> = us.iter().flat_map(|&(l, h)| [l, h]).collect();
    for &(l, h) in us {
        if h > l + 1 {
            v.push(l + 1);
            v.push(l + (h - l) / 2);
            v.push(h - 1);
        }
    }
    v.sort_unstable();
    v.dedup();
    v
}

fn unit_of(us: &[(u32, u32)], c: u32) -> usize {
    us.iter().position(|&(l, h)| l <= c && c <= h).unwrap()
}

fn build_push(us: &[(u32, u32)], p: &Part) -> CharPartition {
    let mut cp = CharPartition::new();
    for &(i, j) in p {
        cp.push(us[i].0, us[j].1);
    }
    cp
}

fn raw(us: &[(u32, u32)], p: &Part) -> Vec<(u32, u32)> {
    p.iter().map(|&(i, j)| (us[i].0, us[j].1)).collect()
}

fn intervals_of(cp: &CharPartition) -> Vec<(u32, u32)> {
    (0..cp.len()).map(|k| cp.get(k)).collect()
}

fn perms(v: &[usize]) -> Vec<Vec<usize>> {
    if v.len() <= 1 {
        return vec![v.to_vec()];
    }
    let mut out = vec![];
    for i in 0..v.len() {
        let mut r = v.to_vec();
        let x = r.remove(i);
        for mut p in perms(&r) {
            p.insert(0, x);
            out.push(p);
        }
    }
    out
}

// =============================================================================================
// C11


/// try_from_iter takes any iterator: the sets are handed over through adaptors with exact and with inexact size hints
const TRY_ITER_KINDS: usize = 5;
fn try_iter_via(kind: usize, sets: &[CharSet]) -> Result<CharPartition, aws_smt_strings::errors::Error> {
    match kind % TRY_ITER_KINDS {
        0 => CharPartition::try_from_iter(sets.iter().copied()),
        1 => CharPartition::try_from_iter(sets.iter().copied().filter(|_| true)),
        2 => CharPartition::try_from_iter(sets.iter().flat_map(|x| std::iter::once(*x))),
        3 => CharPartition::try_from_iter(sets.iter().copied().take_while(|_| true)),
        _ => CharPartition::try_from_iter(sets.to_vec().into_iter().skip_while(|_| false)),
    }
}

/// all checks of C11 on one partition (given over the line with n positions); returns violation messages
fn c11_partition(n: usize, p: &Part, rep: &mut Report) -> Vec<String> {
    publish_case(|| json!({"kind": "partition", "line": n, "part": p}));
    let us = units(n);
    let vals = query_values(&us);
    let mut msgs: Vec<String> = vec![];
    let ivs = raw(&us, p);
    let r = guarded(|| {
        let mut msgs = vec![];
        // structure, complement witness, class ids and picks of a partition, however it was built
        let gap_units: Vec<usize> = (0..n).filter(|&u| class_of_unit(p, u).is_none()).collect();
        let comp_empty = gap_units.is_empty();
        let nc = p.len() + (!comp_empty) as usize;
        let mut exp_ids: Vec<ClassId> = (0..p.len()).map(ClassId::Interval).collect();
        if !comp_empty {
            exp_ids.push(ClassId::Complement);
        }
        let class_of = |c: u32| -> ClassId {
            if c > M {
                return ClassId::Interval(usize::MAX);
            }
            match class_of_unit(p, unit_of(&us, c)) {
                Some(i) => ClassId::Interval(i),
                None => ClassId::Complement,
            }
        };
        let basic = |cp: &CharPartition, how: &str, msgs: &mut Vec<String>| {
            if intervals_of(cp) != ivs || cp.len() != ivs.len() || cp.is_empty() != ivs.is_empty() {
                msgs.push(format!("{}: get()/len() report {:?}, the intervals are {:?}", how, intervals_of(cp), ivs));
                return;
            }
            for (k, &(l, h)) in ivs.iter().enumerate() {
                if cp.start(k) != l || cp.end(k) != h || cp.interval(k) != CharSet::range(l, h) {
                    msgs.push(format!("{}: start/end/interval({}) disagree with {:?}", how, k, (l, h)));
                }
                let pk = cp.pick(k);
                if pk < l || pk > h {
                    msgs.push(format!("{}: pick({}) = {} is outside {:?}", how, k, pk, (l, h)));
                }
            }
            let rr: Vec<(u32, u32)> = cp.ranges().map(crate::regex::bounds_of).collect();
            if rr != ivs {
                msgs.push(format!("{}: ranges() yields {:?}", how, rr));
            }
            if cp.empty_complement() != comp_empty {
                msgs.push(format!("{}: empty_complement() = {} but the complement is {}", how, cp.empty_complement(), if comp_empty { "empty" } else { "not empty" }));
            }
            let w = cp.pick_complement();
            if comp_empty {
                if w <= M {
                    msgs.push(format!("{}: pick_complement() = {} although the complement is empty", how, w));
                }
            } else if class_of(w) != ClassId::Complement {
                msgs.push(format!("{}: pick_complement() = {} is not in the complement", how, w));
            }
            if cp.num_classes() != nc {
                msgs.push(format!("{}: num_classes() = {}, expected {}", how, cp.num_classes(), nc));
            }
            // the classes listed must be exactly the non-empty ones (the order of the listing is not prescribed)
            let ids: Vec<ClassId> = cp.class_ids().collect();
            let same_ids = ids.len() == exp_ids.len() && exp_ids.iter().all(|e| ids.iter().filter(|x| *x == e).count() == 1);
            if !same_ids {
                msgs.push(format!("{}: class_ids() = {:?}, expected the classes {:?}", how, ids, exp_ids));
            }
            for cid in [ClassId::Interval(0), ClassId::Interval(p.len().saturating_sub(1)), ClassId::Interval(p.len()), ClassId::Interval(p.len() + 3), ClassId::Interval(usize::MAX), ClassId::Complement] {
                let exp = exp_ids.contains(&cid);
                if cp.valid_class_id(cid) != exp {
                    msgs.push(format!("{}: valid_class_id({}) = {}, expected {}", how, cid, cp.valid_class_id(cid), exp));
                }
            }
            // picks: exactly one character of every non-empty class
            let picks: Vec<u32> = cp.picks().collect();
            let pick_classes: Vec<ClassId> = picks.iter().map(|&c| class_of(c)).collect();
            let one_each = picks.len() == nc && exp_ids.iter().all(|e| pick_classes.iter().filter(|x| *x == e).count() == 1);
            if !one_each {
                msgs.push(format!("{}: picks() = {:?} lie in classes {:?}; expected one character of each of {:?}", how, picks, pick_classes, exp_ids));
            }
            for &cid in &exp_ids {
                let c = cp.pick_in_class(cid);
                if class_of(c) != cid {
                    msgs.push(format!("{}: pick_in_class({}) = {} lies in class {}", how, cid, c, class_of(c)));
                }
            }
        };
        // the queries of the statement, on a partition however it was built
        let mut outcomes = [0u64; 3];
        let mut nq = 0u64;
        let mut queries = |cp: &CharPartition, how: &str, msgs: &mut Vec<String>| {
            if msgs.len() > 6 {
                return;
            }
            nq += (vals.len() * (vals.len() + 1) / 2) as u64 + vals.len() as u64;
            // class_of_char
            for &c in &vals {
                let exp = match class_of_unit(p, unit_of(&us, c)) {
                    Some(i) => ClassId::Interval(i),
                    None => ClassId::Complement,
                };
                if cp.class_of_char(c) != exp {
                    msgs.push(format!("{}: class_of_char({}) = {}, expected {}", how, c, cp.class_of_char(c), exp));
                }
            }
            // interval_cover / class_of_set / good_char_set
                    for (ai, &a) in vals.iter().enumerate() {
                for &b in &vals[ai..] {
                    let (ua, ub) = (unit_of(&us, a), unit_of(&us, b));
                    let classes: BTreeSet<Option<usize>> = (ua..=ub).map(|u| class_of_unit(p, u)).collect();
                    let exp = if classes.len() == 1 {
                        match classes.iter().next().unwrap() {
                            Some(i) => CoverResult::CoveredBy(*i),
                            None => CoverResult::DisjointFromAll,
                        }
                    } else {
                        CoverResult::Overlaps
                    };
                    let set = CharSet::range(a, b);
                    let got = cp.interval_cover(&set);
                    match got {
                        CoverResult::CoveredBy(_) => outcomes[0] += 1,
                        CoverResult::DisjointFromAll => outcomes[1] += 1,
                        CoverResult::Overlaps => outcomes[2] += 1,
                    }
                    if got != exp {
                        msgs.push(format!("{}: interval_cover([{},{}]) = {}, expected {}", how, a, b, got, exp));
                    }
                    let exp_cls = match exp {
                        CoverResult::CoveredBy(i) => Ok(ClassId::Interval(i)),
                        CoverResult::DisjointFromAll => Ok(ClassId::Complement),
                        CoverResult::Overlaps => Err(()),
                    };
                    let got_cls = cp.class_of_set(&set);
                    let same = match (&got_cls, &exp_cls) {
                        (Ok(x), Ok(y)) => x == y,
                        (Err(aws_smt_strings::errors::Error::AmbiguousCharSet), Err(())) => true,
                        _ => false,
                    };
                    if !same {
                        msgs.push(format!("{}: class_of_set([{},{}]) = {:?}, expected {:?}", how, a, b, got_cls, exp_cls.map_err(|_| "AmbiguousCharSet")));
                    }
                    if cp.good_char_set(&set) != exp_cls.is_ok() {
                        msgs.push(format!("{}: good_char_set([{},{}]) = {}", how, a, b, cp.good_char_set(&set)));
                    }
                    if msgs.len() > 6 {
                        return;
                    }
                }
            }
        };
        let cp = build_push(&us, p);
        basic(&cp, "built by push", &mut msgs);
        queries(&cp, "built by push", &mut msgs);
        // copies: clone(), and clone_from() into partitions that held something else (full cover / empty / one interval)
        {
            let c1 = cp.clone();
            basic(&c1, "clone()", &mut msgs);
            let mut full = CharPartition::from_set(&CharSet::all_chars());
            full.clone_from(&cp);
            basic(&full, "clone_from() into a partition that covered the alphabet", &mut msgs);
            queries(&full, "clone_from() into a partition that covered the alphabet", &mut msgs);
            let mut empty = CharPartition::new();
            empty.clone_from(&cp);
            basic(&empty, "clone_from() into an empty partition", &mut msgs);
            let mut one = CharPartition::from_set(&CharSet::range(0, 1));
            one.clone_from(&cp);
            basic(&one, "clone_from() into the partition {[0,1]}", &mut msgs);
        }
        if p.len() == 1 {
            let q = CharPartition::from_set(&CharSet::range(ivs[0].0, ivs[0].1));
            basic(&q, "built by from_set", &mut msgs);
            queries(&q, "built by from_set", &mut msgs);
        }
        // try_from_list / try_from_iter: succeed on disjoint input and give the same partition in every input order
        if p.len() <= 4 {
            let idx: Vec<usize> = (0..p.len()).collect();
            let mut first: Option<CharPartition> = None;
            for (oi, order) in perms(&idx).into_iter().enumerate() {
                let sets: Vec<CharSet> = order.iter().map(|&k| CharSet::range(ivs[k].0, ivs[k].1)).collect();
                for (name, res) in [("try_from_list", CharPartition::try_from_list(&sets)), ("try_from_iter", try_iter_via(oi + p.len(), &sets)), ("try_from_iter (filtered iterator)", try_iter_via(1 + oi % 4, &sets))] {
                    match res {
                        Ok(q) => match &first {
                            None => {
                                basic(&q, &format!("built by {} in order {:?}", name, order), &mut msgs);
                                queries(&q, &format!("built by {} in order {:?}", name, order), &mut msgs);
                                first = Some(q);
                            }
                            Some(f) => {
                                // the other entry point in the first order, and both in the last (reversed) order
                                if order == idx || order.iter().rev().copied().collect::<Vec<_>>() == idx {
                                    basic(&q, &format!("built by {} in order {:?}", name, order), &mut msgs);
                                    queries(&q, &format!("built by {} in order {:?}", name, order), &mut msgs);
                                }
                                if q != *f {
                                    msgs.push(format!("{} in order {:?} gives {} (witness {}), but in sorted order {} (witness {})", name, order, q, q.pick_complement(), f, f.pick_complement()));
                                    basic(&q, &format!("built by {} in order {:?}", name, order), &mut msgs);
                                }
                            }
                        },
                        Err(e) => msgs.push(format!("{}({:?}) failed with {:?} on pairwise disjoint intervals", name, sets.iter().map(|s| s.to_string()).collect::<Vec<_>>(), e)),
                    }
                }
            }
        }
        (msgs, outcomes, nq)
    });
    match r {
        Ok((m, outcomes, nq)) => {
            msgs.extend(m);
            rep.hist_n("cover_results", "CoveredBy", outcomes[0]);
            rep.hist_n("cover_results", "DisjointFromAll", outcomes[1]);
            rep.hist_n("cover_results", "Overlaps", outcomes[2]);
            rep.add("queries", nq);
        }
        Err(e) => msgs.push(format!("partition {:?}: {}", ivs, e)),
    }
    msgs
}

/// try_from_list on an arbitrary (possibly overlapping) list of intervals
fn c11_list(n: usize, l: &[(usize, usize)]) -> Option<String> {
    publish_case(|| json!({"kind": "list", "line": n, "list": l}));
    let us = units(n);
    let sets: Vec<CharSet> = l.iter().map(|&(i, j)| CharSet::range(us[i].0, us[j].1)).collect();
    let disjoint = (0..l.len()).all(|a| (a + 1..l.len()).all(|b| l[a].1 < l[b].0 || l[b].1 < l[a].0));
    let kind = l.iter().map(|x| x.0 + 3 * x.1).sum::<usize>();
    // three routes: try_from_list, try_from_iter through one adaptor, try_from_iter through an adaptor with an
    // inexact size hint
    let r = guarded(|| vec![("try_from_list", CharPartition::try_from_list(&sets)), ("try_from_iter", try_iter_via(kind, &sets)), ("try_from_iter (inexact size hint)", try_iter_via(1 + kind % 4, &sets))]);
    match r {
        Err(e) => Some(format!("try_from_list({:?}) {}", l, e)),
        Ok(results) => {
            let mut sorted = l.to_vec();
            sorted.sort();
            for (name, res) in results {
                if res.is_ok() != disjoint {
                    return Some(format!("{}({:?}) = {} but the intervals are {}pairwise disjoint", name, raw(&us, &l.to_vec()), if res.is_ok() { "Ok" } else { "Err" }, if disjoint { "" } else { "not " }));
                }
                if let Ok(p) = res {
                    if intervals_of(&p) != raw(&us, &sorted) {
                        return Some(format!("{}({:?}) = {} is not the sorted list of the intervals", name, raw(&us, &l.to_vec()), p));
                    }
                }
            }
            // which error is returned for overlapping input is not part of the statement
            None
        }
    }
}

/// long partitions: `len` intervals; bit i of `pat` (cyclically, period 5) decides whether interval i+1 is adjacent to
/// interval i or separated by a gap; widths alternate between 1 and 3 characters; the first interval starts at 0 or 7
fn long_layout(len: usize, pat: u32) -> Vec<(u32, u32)> {
    let mut v = vec![];
    let mut pos: u32 = if pat & 1 == 1 { 0 } else { 7 };
    for i in 0..len {
        let w = if (i + (pat as usize >> 1)) % 2 == 0 { 0 } else { 2 };
        v.push((pos, pos + w));
        let adjacent = (pat >> (1 + i % 5)) & 1 == 1;
        pos = pos + w + if adjacent { 1 } else { 4 };
    }
    v
}
fn long_partitions(tier: Tier) -> Vec<(usize, u32)> {
    let lens: Vec<usize> = if tier == Tier::Thorough { (10..=70).chain([100, 127, 128, 129, 255, 256, 257, 1000]).collect() } else { vec![10, 15, 16, 17, 18, 24, 31, 32, 33, 40, 63, 64, 65, 100] };
    let mut v = vec![];
    for l in lens {
        for pat in 0..64u32 {
            if tier == Tier::Thorough || pat % 3 == 0 {
                v.push((l, pat));
            }
        }
    }
    v
}

fn c11_long(len: usize, pat: u32, rep: &mut Report) -> Option<String> {
    publish_case(|| json!({"kind": "long", "len": len, "pattern": pat}));
    let ivs = long_layout(len, pat);
    let r = guarded(|| {
        let mut cp = CharPartition::new();
        for &(l, h) in &ivs {
            cp.push(l, h);
        }
        let sets: Vec<CharSet> = ivs.iter().rev().map(|&(l, h)| CharSet::range(l, h)).collect();
        let q = match CharPartition::try_from_list(&sets) {
            Ok(q) => q,
            Err(e) => return Some(format!("try_from_list of {} disjoint intervals (reverse order) failed with {:?}", len, e)),
        };
        let last = ivs[len - 1].1;
        let class = |c: u32| match ivs.iter().position(|&(l, h)| l <= c && c <= h) {
            Some(i) => ClassId::Interval(i),
            None => ClassId::Complement,
        };
        let mut queries = 0u64;
        for (name, p) in [("push", &cp), ("try_from_list", &q)] {
            if intervals_of(p) != ivs {
                return Some(format!("{}: intervals differ from the {} pushed ones", name, len));
            }
            if p.num_classes() != len + 1 || p.empty_complement() || class(p.pick_complement()) != ClassId::Complement {
                return Some(format!("{}: num_classes/complement witness wrong for {} intervals (witness {})", name, len, p.pick_complement()));
            }
            let picks: Vec<u32> = p.picks().collect();
            let mut pc: Vec<String> = picks.iter().map(|&c| format!("{}", class(c))).collect();
            pc.sort();
            pc.dedup();
            if picks.len() != len + 1 || pc.len() != len + 1 {
                return Some(format!("{}: picks() of a {}-interval partition are not one per class", name, len));
            }
            // every character from 0 to just after the last interval, plus the alphabet border
            for c in (0..=last + 5).chain([M - 1, M]) {
                queries += 1;
                if p.class_of_char(c) != class(c) {
                    return Some(format!("{} ({} intervals {:?}...): class_of_char({}) = {}, expected {}", name, len, &ivs[..3], c, p.class_of_char(c), class(c)));
                }
            }
            // query sets around every interval
            for (k, &(l, h)) in ivs.iter().enumerate() {
                let mut cands: Vec<(u32, u32)> = vec![(l, h), (l, l), (h, h), (l, h + 1), (h + 1, h + 1), (h, h + 2), (l, h + 4)];
                if l > 0 {
                    cands.push((l - 1, h));
                    cands.push((l - 1, l - 1));
                }
                for (a, b) in cands {
                    queries += 1;
                    let cls: BTreeSet<String> = (a..=b).map(|c| format!("{}", class(c))).collect();
                    let exp = if cls.len() == 1 {
                        match class(a) {
                            ClassId::Interval(i) => CoverResult::CoveredBy(i),
                            ClassId::Complement => CoverResult::DisjointFromAll,
                        }
                    } else {
                        CoverResult::Overlaps
                    };
                    let got = p.interval_cover(&CharSet::range(a, b));
                    if got != exp {
                        return Some(format!("{} ({} intervals): interval_cover([{},{}]) near interval {} = {}, expected {}", name, len, a, b, k, got, exp));
                    }
                    if p.class_of_set(&CharSet::range(a, b)).is_ok() != (exp != CoverResult::Overlaps) {
                        return Some(format!("{} ({} intervals): class_of_set([{},{}]) disagrees with {}", name, len, a, b, exp));
                    }
                }
            }
        }
        // merging a long partition with itself and with its shift
        let m = merge_partitions(&cp, &q);
        if intervals_of(&m) != ivs {
            return Some(format!("merge_partitions(p, p) differs from p for a {}-interval partition", len));
        }
        rep.add("queries", queries);
        None
    });
    match r {
        Ok(m) => m,
        Err(e) => Some(format!("long partition ({} intervals, pattern {}): {}", len, pat, e)),
    }
}

fn c11_line(tier: Tier) -> usize {
    if tier == Tier::Thorough {
        15
    } else {
        9
    }
}

fn c11_run(ctx: &Ctx, batch: usize, nb: usize, rep: &mut Report) {
    let n = c11_line(ctx.tier);
    let parts = enum_parts(n);
    for (k, p) in parts.iter().enumerate() {
        if k % nb != batch {
            continue;
        }
        beat();
        rep.inc("evaluations");
        rep.inc("partitions");
        if p.len() >= 2 {
            rep.inc("nontrivial"); // partitions with at least two intervals
        }
        let msgs = c11_partition(n, p, rep);
        if !msgs.is_empty() {
            rep.violation("C11", "c11", json!({"kind": "partition", "line": n, "part": p}), format!("partition {:?}: {}", raw(&units(n), p), msgs[..msgs.len().min(3)].join(" | ")));
        }
        if rep.samples.len() < 3 && p.len() == 3 {
            let sj = json!({"partition": raw(&units(n), p), "queries": "all characters and all [a,b] over the position boundaries"});
            rep.sample(|| sj);
        }
    }
    // landmark windows: all partitions over seven consecutive landmark positions (encoding borders, the surrogate
    // block, plane borders) with the rest of the alphabet as fat positions
    {
        let nw = landmark_units().len() - 6;
        let mut k = 0usize;
        for w in 0..nw {
            let line = landmark_window(w);
            let ln = line.len();
            let wparts = enum_parts(ln);
            for p in wparts.iter() {
                k += 1;
                if k % nb != batch {
                    continue;
                }
                if k % 512 == batch {
                    beat();
                }
                rep.inc("evaluations");
                rep.inc("landmark_window_partitions");
                let msgs = with_line(line.clone(), || c11_partition(ln, p, rep));
                if !msgs.is_empty() {
                    rep.violation("C11", "c11", json!({"kind": "partition", "line": ln, "window": w, "part": p}), format!("partition {:?}: {}", raw(&line, p), msgs[..msgs.len().min(3)].join(" | ")));
                }
            }
        }
    }
    // long partitions (binary searches and any size-dependent fast path): L intervals laid out by a gap pattern
    for (k, (len, pat)) in long_partitions(ctx.tier).into_iter().enumerate() {
        if k % nb != batch {
            continue;
        }
        beat();
        rep.inc("evaluations");
        rep.inc("long_partitions");
        rep.inc("nontrivial");
        if let Some(m) = c11_long(len, pat, rep) {
            rep.violation("C11", "c11", json!({"kind": "long", "len": len, "pattern": pat}), m);
        }
    }
    // arbitrary lists of up to 3 intervals (the failure side of try_from_iter)
    let ivs: Vec<(usize, usize)> = (0..n).flat_map(|i| (i..n).map(move |j| (i, j))).collect();
    let mut lists: Vec<Vec<(usize, usize)>> = vec![vec![]];
    let mut cur: Vec<Vec<(usize, usize)>> = vec![vec![]];
    for _ in 0..3 {
        let mut nx = vec![];
        for l in &cur {
            for &iv in &ivs {
                let mut t = l.clone();
                t.push(iv);
                nx.push(t);
            }
        }
        lists.extend(nx.iter().cloned());
        cur = nx;
    }
    for (k, l) in lists.iter().enumerate() {
        if k % nb != batch {
            continue;
        }
        rep.inc("evaluations");
        rep.inc("input_lists");
        if let Some(m) = c11_list(n, l) {
            rep.violation("C11", "c11", json!({"kind": "list", "line": n, "list": l}), m);
        }
    }
}

fn parse_part(v: &Value) -> Part {
    v.as_array().map(|a| a.iter().map(|x| (x[0].as_u64().unwrap_or(0) as usize, x[1].as_u64().unwrap_or(0) as usize)).collect()).unwrap_or_default()
}

fn c11_replay(_ctx: &Ctx, c: &Value, rep: &mut Report) {
    let n = c["line"].as_u64().unwrap_or(9) as usize;
    rep.inc("evaluations");
    match c["kind"].as_str().unwrap_or("") {
        "long" => {
            if let Some(m) = c11_long(c["len"].as_u64().unwrap_or(10) as usize, c["pattern"].as_u64().unwrap_or(0) as u32, rep) {
                rep.violation("C11", "c11", c.clone(), m);
            }
        }
        "partition" => {
            let p = parse_part(&c["part"]);
            let msgs = match c["window"].as_u64() {
                Some(w) => {
                    let line = landmark_window(w as usize);
                    let ln = line.len();
                    with_line(line, || c11_partition(ln, &p, rep))
                }
                None => c11_partition(n, &p, rep),
            };
            if !msgs.is_empty() {
                rep.violation("C11", "c11", c.clone(), msgs.join(" | "));
            }
        }
        _ => {
            let l = parse_part(&c["list"]);
            if let Some(m) = c11_list(n, &l) {
                rep.violation("C11", "c11", c.clone(), m);
            }
        }
    }
}

fn c11_meta(ctx: &Ctx) -> Meta {
    let n = c11_line(ctx.tier);
    Meta {
        level: "exploration",
        rule: format!("all {} sets of pairwise disjoint intervals over a compressed line of {} positions (0,1,..; one fat position; ..,MAX-1,MAX) are built by push (and by from_set / try_from_list / try_from_iter in every input order when they have <= 4 intervals); every query character (position end points and interior points of the fat position) and every query set [a,b] over them is compared with set arithmetic over positions; all lists of <= 3 arbitrary intervals for the failure side of try_from_iter; the same for all partitions over every window of seven consecutive landmark positions (0x7F/0x80 ... 0xD7FF/0xD800, 0xDFFF/0xE000 ... 0x1FFFF/0x20000); clone() and clone_from() over a partition with another witness as further construction routes; long partitions (10 to 100, thorough 1000, intervals in 22-64 adjacency patterns) queried on every character up to their last interval and on sets around every interval; run in the release and in the dev profile; non-trivial = partitions with >= 2 intervals", enum_parts(n).len(), n),
        assumptions: vec!["the code compares end points with <, <=, == and +-1 only, so its behaviour depends on the order/adjacency type of the end points, all of which the compressed line realises for up to 5 non-adjacent intervals".into()],
        exhaustive: true,
        space: format!("compressed line {:?}", units(n)),
    }
}

pub fn c11_engine() -> SimpleEngine {
    SimpleEngine { name: "c11", nb: |_| NB, run: c11_run, replay: c11_replay, meta: c11_meta, hang_violation: true }
}

// =============================================================================================
// C12

fn expected_merge(us: &[(u32, u32)], n: usize, ps: &[&Part]) -> (Vec<(u32, u32)>, bool) {
    // maximal runs of positions with the same tuple of classes, other than the all-complement tuple
    let mut exp: Vec<(u32, u32)> = vec![];
    let mut prev: Option<Vec<Option<usize>>> = None;
    let mut comp_nonempty = false;
    for u in 0..n {
        let key: Vec<Option<usize>> = ps.iter().map(|p| class_of_unit(p, u)).collect();
        if key.iter().all(|k| k.is_none()) {
            comp_nonempty = true;
            prev = None;
            continue;
        }
        if prev.as_ref() == Some(&key) {
            exp.last_mut().unwrap().1 = us[u].1;
        } else {
            exp.push(us[u]);
        }
        prev = Some(key);
    }
    (exp, !comp_nonempty)
}

fn check_merged(us: &[(u32, u32)], n: usize, ps: &[&Part], m: &CharPartition, what: &str) -> Option<String> {
    let (exp, comp_empty) = expected_merge(us, n, ps);
    let got = intervals_of(m);
    if got != exp {
        return Some(format!("{} = {:?}, the coarsest common refinement is {:?}", what, got, exp));
    }
    if m.empty_complement() != comp_empty {
        return Some(format!("{}: empty_complement() = {} but the intersection of the complements is {}", what, m.empty_complement(), if comp_empty { "empty" } else { "not empty" }));
    }
    let w = m.pick_complement();
    if comp_empty {
        if w <= M {
            return Some(format!("{}: complement witness {} although the complement is empty", what, w));
        }
    } else if w > M || ps.iter().any(|p| class_of_unit(p, unit_of(us, w)).is_some()) {
        return Some(format!("{}: complement witness {} is not in the intersection of the complements", what, w));
    }
    None
}


/// expected merge computed on raw interval lists (for partitions that do not live on the compressed line): sweep
/// over all interval end points, key of an elementary segment = its class in every partition
fn expected_merge_raw(ps: &[&Vec<(u32, u32)>]) -> (Vec<(u32, u32)>, bool) {
    let mut cuts: BTreeSet<u64> = BTreeSet::new();
    cuts.insert(0);
    cuts.insert(M as u64 + 1);
    for p in ps {
        for &(l, h) in p.iter() {
            cuts.insert(l as u64);
            cuts.insert(h as u64 + 1);
        }
    }
    let cuts: Vec<u64> = cuts.into_iter().collect();
    let class = |p: &Vec<(u32, u32)>, c: u32| -> Option<usize> {
        let i = p.partition_point(|&(_, h)| h < c);
        if i < p.len() && p[i].0 <= c {
            Some(i)
        } else {
            None
        }
    };
    let mut exp: Vec<(u32, u32)> = vec![];
    let mut prev: Option<Vec<Option<usize>>> = None;
    let mut comp_nonempty = false;
    for w in cuts.windows(2) {
        let (a, b) = (w[0] as u32, (w[1] - 1) as u32);
        let key: Vec<Option<usize>> = ps.iter().map(|p| class(p, a)).collect();
        if key.iter().all(|k| k.is_none()) {
            comp_nonempty = true;
            prev = None;
            continue;
        }
        if prev.as_ref() == Some(&key) {
            exp.last_mut().unwrap().1 = b;
        } else {
            exp.push((a, b));
        }
        prev = Some(key);
    }
    (exp, !comp_nonempty)
}

fn shifted_layout(len: usize, pat: u32, shift: u32) -> Vec<(u32, u32)> {
    long_layout(len, pat).into_iter().map(|(l, h)| (l + shift, h + shift)).collect()
}

/// merge of long partitions (any size-dependent path of the sweep): every listed layout against every other, and
/// folds of three
fn c12_long(ls: &[(usize, u32, u32)]) -> Option<String> {
    publish_case(|| json!({"kind": "long", "layouts": ls.iter().map(|l| vec![l.0 as u64, l.1 as u64, l.2 as u64]).collect::<Vec<_>>()}));
    let raws: Vec<Vec<(u32, u32)>> = ls.iter().map(|&(len, pat, sh)| shifted_layout(len, pat, sh)).collect();
    let r = guarded(|| {
        let cps: Vec<CharPartition> = raws
            .iter()
            .map(|ivs| {
                let mut cp = CharPartition::new();
                for &(l, h) in ivs {
                    cp.push(l, h);
                }
                cp
            })
            .collect();
        let m = if cps.len() == 2 { merge_partitions(&cps[0], &cps[1]) } else { merge_partition_list(cps.iter()) };
        let refs: Vec<&Vec<(u32, u32)>> = raws.iter().collect();
        let (exp, comp_empty) = expected_merge_raw(&refs);
        let got = intervals_of(&m);
        if got != exp {
            let k = got.iter().zip(exp.iter()).position(|(a, b)| a != b).unwrap_or(got.len().min(exp.len()));
            return Some(format!("merge of long partitions {:?} (len, pattern, shift): {} intervals, expected {}; first difference at index {}: {:?} vs {:?}", ls, got.len(), exp.len(), k, got.get(k), exp.get(k)));
        }
        let w = m.pick_complement();
        if m.empty_complement() != comp_empty || (!comp_empty && (w > M || raws.iter().any(|p| p.iter().any(|&(l, h)| l <= w && w <= h)))) {
            return Some(format!("merge of long partitions {:?}: complement (empty={}, witness {}) wrong", ls, m.empty_complement(), w));
        }
        None
    });
    match r {
        Ok(m) => m,
        Err(e) => Some(format!("merge of long partitions {:?} {}", ls, e)),
    }
}

fn c12_long_pool(tier: Tier) -> Vec<(usize, u32, u32)> {
    let lens: Vec<usize> = if tier == Tier::Thorough { vec![9, 10, 15, 16, 17, 31, 32, 33, 63, 64, 65, 100, 129, 257] } else { vec![10, 16, 17, 33, 65, 100] };
    let pats: Vec<u32> = if tier == Tier::Thorough { (0..64).step_by(3).collect() } else { vec![0, 3, 21, 42, 45, 63] };
    let mut v = vec![];
    for &l in &lens {
        for &p in &pats {
            for sh in [0u32, 1, 5] {
                v.push((l, p, sh));
            }
        }
    }
    v
}


/// merge_partition_list takes any iterator: the same list is handed over through adaptors whose size_hint is exact
/// (slice iterator), has a lower bound of 0 (filter, skip_while, flat_map) or 1 (once + filtered rest)
const ITER_KINDS: usize = 5;
fn merge_via(kind: usize, l: &[&CharPartition]) -> CharPartition {
    match kind % ITER_KINDS {
        0 => merge_partition_list(l.iter().copied()),
        1 => merge_partition_list(l.iter().copied().filter(|_| true)),
        2 => merge_partition_list(l.iter().copied().skip_while(|_| false)),
        3 => merge_partition_list(l.iter().flat_map(|p| std::iter::once(*p))),
        _ => {
            if l.is_empty() {
                merge_partition_list(l.iter().copied())
            } else {
                merge_partition_list(std::iter::once(l[0]).chain(l[1..].iter().copied().filter(|_| true)))
            }
        }
    }
}

/// a list of k partitions: element i contributes one interval of its own (and every third one a second interval);
/// merged in a rotated order through one of the iterator adaptors
fn c12_manylist(k: usize, variant: usize, rot: usize, kind: usize) -> Option<String> {
    publish_case(|| json!({"kind": "manylists", "k": k, "variant": variant, "rot": rot, "iter": kind}));
    let raws: Vec<Vec<(u32, u32)>> = (0..k)
        .map(|i| {
            let i = i as u32;
            let mut v = vec![(10 * i + 5, 10 * i + 6)];
            if variant >= 1 && i % 3 == 0 {
                v.push((10 * i + 8, 10 * i + 12));
            }
            if variant == 2 {
                v.insert(0, (0, 2));
            }
            v
        })
        .collect();
    let order: Vec<usize> = (0..k).map(|i| (i + rot) % k.max(1)).collect();
    let r = guarded(|| {
        let cps: Vec<CharPartition> = order
            .iter()
            .map(|&i| {
                let mut cp = CharPartition::new();
                for &(l, h) in &raws[i] {
                    cp.push(l, h);
                }
                cp
            })
            .collect();
        let l: Vec<&CharPartition> = cps.iter().collect();
        let m = merge_via(kind, &l);
        let refs: Vec<&Vec<(u32, u32)>> = raws.iter().collect();
        let (exp, _) = expected_merge_raw(&refs);
        (intervals_of(&m) != exp).then(|| format!("merge_partition_list of {} partitions (variant {}, rotation {}, iterator adaptor {}) = {} intervals {:?}.., expected {} {:?}..", k, variant, rot, kind, m.len(), &intervals_of(&m)[..m.len().min(4)], exp.len(), &exp[..exp.len().min(4)]))
    });
    match r {
        Ok(m) => m,
        Err(e) => Some(format!("merge_partition_list of {} partitions {}", k, e)),
    }
}

fn c12_pair(n: usize, p1: &Part, p2: &Part) -> Option<String> {
    publish_case(|| json!({"kind": "pair", "line": n, "p1": p1, "p2": p2}));
    let us = units(n);
    let r = guarded(|| {
        let (a, b) = (build_push(&us, p1), build_push(&us, p2));
        let m = merge_partitions(&a, &b);
        check_merged(&us, n, &[p1, p2], &m, &format!("merge_partitions({}, {})", a, b))
    });
    match r {
        Ok(m) => m,
        Err(e) => Some(format!("merge_partitions({:?}, {:?}) {}", raw(&us, p1), raw(&us, p2), e)),
    }
}

fn c12_list(n: usize, ps: &[Part]) -> Option<String> {
    publish_case(|| json!({"kind": "list", "line": n, "parts": ps}));
    let us = units(n);
    let r = guarded(|| {
        let cps: Vec<CharPartition> = ps.iter().map(|p| build_push(&us, p)).collect();
        let refs: Vec<&Part> = ps.iter().collect();
        let idx: Vec<usize> = (0..ps.len()).collect();
        for (oi, order) in perms(&idx).into_iter().enumerate() {
            let l: Vec<&CharPartition> = order.iter().map(|&k| &cps[k]).collect();
            let m = merge_via(oi + ps.len(), &l);
            if let Some(e) = check_merged(&us, n, &refs, &m, &format!("merge_partition_list in order {:?} of {:?}", order, ps.iter().map(|p| raw(&us, p)).collect::<Vec<_>>())) {
                return Some(e);
            }
        }
        // the empty partition is neutral, wherever it is in the list
        let empty = CharPartition::new();
        for pos in 0..=ps.len() {
            let mut l: Vec<&CharPartition> = cps.iter().collect();
            l.insert(pos, &empty);
            let m = merge_via(pos + 1, &l);
            if let Some(e) = check_merged(&us, n, &refs, &m, "merge_partition_list with an empty partition inserted") {
                return Some(e);
            }
        }
        None
    });
    match r {
        Ok(m) => m,
        Err(e) => Some(format!("merge_partition_list {}", e)),
    }
}

/// the list merged in the given order only (the enumeration supplies every order itself)
fn c12_list_given(n: usize, ps: &[Part]) -> Option<String> {
    publish_case(|| json!({"kind": "list", "line": n, "parts": ps}));
    let us = units(n);
    let r = guarded(|| {
        let cps: Vec<CharPartition> = ps.iter().map(|p| build_push(&us, p)).collect();
        let refs: Vec<&Part> = ps.iter().collect();
        let l: Vec<&CharPartition> = cps.iter().collect();
        for kind in 0..ITER_KINDS {
            let m = merge_via(kind, &l);
            if let Some(e) = check_merged(&us, n, &refs, &m, &format!("merge_partition_list (iterator adaptor {}) of {:?}", kind, ps.iter().map(|p| raw(&us, p)).collect::<Vec<_>>())) {
                return Some(e);
            }
        }
        None
    });
    match r {
        Ok(m) => m,
        Err(e) => Some(format!("merge_partition_list {}", e)),
    }
}

fn c12_line(tier: Tier) -> usize {
    if tier == Tier::Thorough {
        10
    } else {
        9
    }
}

fn c12_run(ctx: &Ctx, batch: usize, nb: usize, rep: &mut Report) {
    let n = c12_line(ctx.tier);
    let us = units(n);
    let parts = enum_parts(n);
    let cps: Vec<CharPartition> = parts.iter().map(|p| build_push(&us, p)).collect();
    for (i, p1) in parts.iter().enumerate() {
        if i % nb != batch {
            continue;
        }
        beat();
        for (j, p2) in parts.iter().enumerate() {
            rep.inc("evaluations");
            // fast path: the real call on prebuilt partitions; the slow path re-checks with messages
            publish_case(|| json!({"kind": "pair", "line": n, "p1": p1, "p2": p2}));
            let ok = guarded(|| {
                let m = merge_partitions(&cps[i], &cps[j]);
                check_merged(&us, n, &[p1, p2], &m, "merge").is_none()
            })
            .unwrap_or(false);
            if !p1.is_empty() && !p2.is_empty() && i != j {
                rep.inc("nontrivial"); // ordered pairs of two different non-empty partitions
            }
            if !ok {
                let m = c12_pair(n, p1, p2).unwrap_or_else(|| "merge_partitions failed on the prebuilt partitions only".into());
                rep.violation("C12", "c12", json!({"kind": "pair", "line": n, "p1": p1, "p2": p2}), m);
            }
            // the same pair as a two-element list
            rep.inc("evaluations");
            publish_case(|| json!({"kind": "list", "line": n, "parts": [p1, p2]}));
            let ok2 = guarded(|| {
                let m = merge_via(i + j, &[&cps[i], &cps[j]]);
                check_merged(&us, n, &[p1, p2], &m, "merge_partition_list").is_none()
            })
            .unwrap_or(false);
            if !ok2 {
                let l = vec![p1.clone(), p2.clone()];
                let m = c12_list(n, &l).unwrap_or_else(|| "merge_partition_list([p1, p2]) is not the common refinement".into());
                rep.violation("C12", "c12", json!({"kind": "list", "line": n, "parts": l}), m);
            }
        }
        // neutral element
        for (a, b) in [(p1.clone(), vec![]), (vec![], p1.clone())] {
            rep.inc("evaluations");
            if let Some(m) = c12_pair(n, &a, &b) {
                rep.violation("C12", "c12", json!({"kind": "pair", "line": n, "p1": a, "p2": b}), m);
            }
        }
        if rep.samples.len() < 3 && p1.len() == 2 {
            let other = &parts[(i * 7 + 13) % parts.len()];
            let (e, _) = expected_merge(&us, n, &[p1, other]);
            let sj = json!({"p1": raw(&us, p1), "p2": raw(&us, other), "coarsest_common_refinement": e});
            rep.sample(|| sj);
        }
    }
    // lists of three partitions, in every order
    let step = if ctx.tier == Tier::Thorough { 13 } else { 37 };
    let sub: Vec<&Part> = parts.iter().step_by(step).collect();
    let mut k = 0usize;
    for a in &sub {
        for b in &sub {
            k += 1;
            if k % nb != batch {
                continue;
            }
            beat();
            for c in sub.iter().step_by(3) {
                rep.inc("evaluations");
                rep.inc("lists");
                let l = vec![(*a).clone(), (*b).clone(), (*c).clone()];
                if let Some(m) = c12_list(n, &l) {
                    rep.violation("C12", "c12", json!({"kind": "list", "line": n, "parts": l}), m);
                }
            }
        }
    }
    // long partitions against each other (pairs) and folds of three
    let pool = c12_long_pool(ctx.tier);
    let mut k = 0usize;
    for (i, a) in pool.iter().enumerate() {
        k += 1;
        if k % nb != batch {
            continue;
        }
        beat();
        for (j, b) in pool.iter().enumerate() {
            rep.inc("evaluations");
            rep.inc("long_pairs");
            if let Some(m) = c12_long(&[*a, *b]) {
                rep.violation("C12", "c12", json!({"kind": "long", "layouts": [[a.0, a.1, a.2], [b.0, b.1, b.2]]}), m);
            }
            if (i + j) % 7 == 0 {
                let c = pool[(i * 5 + j * 3 + 1) % pool.len()];
                rep.inc("evaluations");
                rep.inc("long_lists");
                if let Some(m) = c12_long(&[*a, *b, c]) {
                    rep.violation("C12", "c12", json!({"kind": "long", "layouts": [[a.0, a.1, a.2], [b.0, b.1, b.2], [c.0, c.1, c.2]]}), m);
                }
            }
        }
    }
    // lists of 1..24 partitions: element i contributes one interval of its own (and every third one a second interval
    // shared with its neighbour), so that dropping or repeating any element of the list changes the result
    if batch == 2 % nb {
        for k in 1..=24usize {
            for variant in 0..3 {
                for rot in [0usize, 1, k / 2] {
                    for kind in 0..ITER_KINDS {
                        rep.inc("evaluations");
                        rep.inc("long_lists_of_short_partitions");
                        if let Some(m) = c12_manylist(k, variant, rot, kind) {
                            rep.violation("C12", "c12", json!({"kind": "manylists", "k": k, "variant": variant, "rot": rot, "iter": kind}), m);
                        }
                    }
                }
            }
        }
    }
    // lists of four (every order) and five partitions over a short line
    let n3 = 3usize;
    let small = enum_parts(n3);
    let mut k = 0usize;
    for a in &small {
        for b in &small {
            k += 1;
            if k % nb != batch {
                continue;
            }
            beat();
            for c in &small {
                for d in &small {
                    rep.inc("evaluations");
                    rep.inc("lists4");
                    let l = vec![a.clone(), b.clone(), c.clone(), d.clone()];
                    if let Some(m) = c12_list_given(n3, &l) {
                        rep.violation("C12", "c12", json!({"kind": "list", "line": n3, "parts": l}), m);
                    }
                    // five: every list in the thorough tier; in the quick tier those whose fifth element is one of
                    // three fixed partitions (the merge strategy may depend on the length of the list)
                    let fifth: Vec<&Part> = if ctx.tier == Tier::Thorough { small.iter().collect() } else { vec![&small[1], &small[small.len() / 2], &small[small.len() - 1]] };
                    {
                        for e in fifth {
                            rep.inc("evaluations");
                            rep.inc("lists5");
                            let l = vec![a.clone(), b.clone(), c.clone(), d.clone(), e.clone()];
                            if let Some(m) = c12_list_given(n3, &l) {
                                rep.violation("C12", "c12", json!({"kind": "list", "line": n3, "parts": l}), m);
                            }
                        }
                    }
                }
            }
        }
    }
    if batch == 0 {
        rep.inc("evaluations");
        if let Some(m) = c12_list(n, &[]) {
            rep.violation("C12", "c12", json!({"kind": "list", "line": n, "parts": []}), m);
        }
    }
}

fn c12_replay(_ctx: &Ctx, c: &Value, rep: &mut Report) {
    let n = c["line"].as_u64().unwrap_or(9) as usize;
    rep.inc("evaluations");
    let m = match c["kind"].as_str().unwrap_or("") {
        "pair" => c12_pair(n, &parse_part(&c["p1"]), &parse_part(&c["p2"])),
        "long" => {
            let ls: Vec<(usize, u32, u32)> = c["layouts"].as_array().map(|a| a.iter().map(|t| (t[0].as_u64().unwrap_or(10) as usize, t[1].as_u64().unwrap_or(0) as u32, t[2].as_u64().unwrap_or(0) as u32)).collect()).unwrap_or_default();
            c12_long(&ls)
        }
        "manylists" => {
            let g = |k: &str| c[k].as_u64().unwrap_or(0) as usize;
            c12_manylist(g("k").max(1), g("variant"), g("rot"), g("iter"))
        }
        _ => {
            let ps: Vec<Part> = c["parts"].as_array().map(|a| a.iter().map(parse_part).collect()).unwrap_or_default();
            c12_list_given(n, &ps).or_else(|| if ps.len() <= 4 { c12_list(n, &ps) } else { None })
        }
    };
    if let Some(m) = m {
        rep.violation("C12", "c12", c.clone(), m);
    }
}

fn c12_meta(ctx: &Ctx) -> Meta {
    let n = c12_line(ctx.tier);
    let np = enum_parts(n).len();
    Meta {
        level: "exploration",
        rule: format!("all {} x {} ordered pairs of partitions over a compressed line of {} positions; expected result = the maximal runs of positions with equal (class in p1, class in p2) other than (complement, complement), complement = intersection of the complements with a witness inside it; merge with the empty partition on either side; every ordered pair also as a two-element list through merge_partition_list, the list handed over through iterator adaptors with exact and with inexact size hints (slice, filter, skip_while, flat_map, once+chain); lists of three partitions in all 6 orders and with an empty partition inserted at every place; all lists of four and (quick: a slice of the, thorough: all) lists of five partitions over a 3-position line, each through five iterator adaptors; lists of 1 to 24 short partitions in three rotations; long partitions (9-257 intervals in several adjacency patterns and shifts) merged pairwise and in folds of three, expected result from a sweep over all end points; run in the release and dev profiles; non-trivial = ordered pairs of two different non-empty partitions", np, np, n),
        assumptions: vec!["'same class exactly when' is read for interval partitions: a class other than the complement is an interval, so the result must be the coarsest refinement whose classes are intervals (maximal runs), as the statement's third clause says".into()],
        exhaustive: true,
        space: format!("compressed line {:?}", units(n)),
    }
}

pub fn c12_engine() -> SimpleEngine {
    SimpleEngine { name: "c12", nb: |_| NB, run: c12_run, replay: c12_replay, meta: c12_meta, hang_violation: true }
}

// =============================================================================================
// C20

fn c20_line(tier: Tier) -> usize {
    if tier == Tier::Thorough {
        15
    } else {
        9
    }
}

fn c20_single(n: usize, a: (usize, usize)) -> Option<String> {
    publish_case(|| json!({"kind": "single", "line": n, "a": [a.0, a.1]}));
    let us = units(n);
    let vals = query_values(&us);
    let r = guarded(|| {
        let ca = CharSet::range(us[a.0].0, us[a.1].1);
        let size: u64 = (a.0..=a.1).map(|u| (us[u].1 - us[u].0 + 1) as u64).sum();
        if ca.size() as u64 != size {
            return Some(format!("size({}) = {}, expected {}", ca, ca.size(), size));
        }
        if ca.is_singleton() != (size == 1) {
            return Some(format!("is_singleton({}) = {}", ca, ca.is_singleton()));
        }
        if ca.is_alphabet() != (a == (0, n - 1)) {
            return Some(format!("is_alphabet({}) = {}", ca, ca.is_alphabet()));
        }
        if !(us[a.0].0..=us[a.1].1).contains(&ca.pick()) {
            return Some(format!("pick({}) = {} is not a member", ca, ca.pick()));
        }
        if a.0 == a.1 && us[a.0].0 == us[a.0].1 && CharSet::singleton(us[a.0].0) != ca {
            return Some(format!("singleton({}) != range of the same character", us[a.0].0));
        }
        if a == (0, n - 1) && CharSet::all_chars() != ca {
            return Some("all_chars() != range(0, MAX_CHAR)".to_string());
        }
        for &x in &vals {
            let u = unit_of(&us, x);
            let inside = a.0 <= u && u <= a.1;
            if ca.contains(x) != inside {
                return Some(format!("{}.contains({}) = {}", ca, x, ca.contains(x)));
            }
            if ca.is_before(x) != (a.1 < u) {
                return Some(format!("{}.is_before({}) = {}", ca, x, ca.is_before(x)));
            }
            if ca.is_after(x) != (u < a.0) {
                return Some(format!("{}.is_after({}) = {}", ca, x, ca.is_after(x)));
            }
        }
        None
    });
    match r {
        Ok(m) => m,
        Err(e) => Some(format!("CharSet {:?}: {}", a, e)),
    }
}


/// per-interval facts on an arbitrary interval [lo, hi] (no line): used for the sweep over every character
fn c20_raw(lo: u32, hi: u32) -> Option<String> {
    publish_case(|| json!({"kind": "raw", "lo": lo, "hi": hi}));
    let r = guarded(|| {
        let ca = CharSet::range(lo, hi);
        if ca.size() as u64 != (hi - lo) as u64 + 1 || ca.is_singleton() != (lo == hi) || ca.is_alphabet() != (lo == 0 && hi == M) {
            return Some(format!("size / is_singleton / is_alphabet of [{},{}] = {} / {} / {}", lo, hi, ca.size(), ca.is_singleton(), ca.is_alphabet()));
        }
        let pk = ca.pick();
        if pk < lo || pk > hi {
            return Some(format!("pick([{:#x},{:#x}]) = {:#x} is not a member", lo, hi, pk));
        }
        for (x, inside) in [(lo, true), (hi, true), (lo + (hi - lo) / 2, true)] {
            if ca.contains(x) != inside {
                return Some(format!("[{:#x},{:#x}].contains({:#x}) = {}", lo, hi, x, !inside));
            }
        }
        if lo > 0 && (ca.contains(lo - 1) || !ca.is_after(lo - 1) || ca.is_before(lo - 1)) {
            return Some(format!("[{:#x},{:#x}] and the character just below it: contains/is_after/is_before wrong", lo, hi));
        }
        if hi < M && (ca.contains(hi + 1) || !ca.is_before(hi + 1) || ca.is_after(hi + 1)) {
            return Some(format!("[{:#x},{:#x}] and the character just above it: contains/is_before/is_after wrong", lo, hi));
        }
        if lo == hi && CharSet::singleton(lo) != ca {
            return Some(format!("singleton({:#x}) != range({:#x},{:#x})", lo, lo, lo));
        }
        // a partition made of this one interval: its pick is the pick of class 0
        let cp = CharPartition::from_set(&ca);
        let pk = cp.pick(0);
        let pc = cp.pick_in_class(ClassId::Interval(0));
        if pk < lo || pk > hi || pc < lo || pc > hi {
            return Some(format!("partition {{[{:#x},{:#x}]}}: pick(0) = {:#x}, pick_in_class(Interval(0)) = {:#x}: not in the interval", lo, hi, pk, pc));
        }
        None
    });
    match r {
        Ok(m) => m,
        Err(e) => Some(format!("CharSet [{:#x},{:#x}]: {}", lo, hi, e)),
    }
}

fn c20_pair(n: usize, a: (usize, usize), b: (usize, usize)) -> Option<String> {
    publish_case(|| json!({"kind": "pair", "line": n, "a": [a.0, a.1], "b": [b.0, b.1]}));
    let us = units(n);
    let cs = |x: (usize, usize)| CharSet::range(us[x.0].0, us[x.1].1);
    let r = guarded(|| {
        let (ca, cb) = (cs(a), cs(b));
        let (lo, hi) = (a.0.max(b.0), a.1.min(b.1));
        let ei = if lo <= hi { Some(cs((lo, hi))) } else { None };
        if ca.inter(&cb) != ei {
            return Some(format!("{}.inter({}) = {:?}, expected {:?}", ca, cb, ca.inter(&cb), ei));
        }
        // the union is an interval iff the two overlap or are adjacent
        let touching = lo <= hi + 1;
        let eu = if touching { Some(cs((a.0.min(b.0), a.1.max(b.1)))) } else { None };
        if ca.union(&cb) != eu {
            return Some(format!("{}.union({}) = {:?}, expected {:?}", ca, cb, ca.union(&cb), eu));
        }
        if ca.covers(&cb) != (a.0 <= b.0 && b.1 <= a.1) {
            return Some(format!("{}.covers({}) = {}", ca, cb, ca.covers(&cb)));
        }
        let eo = if a == b {
            Some(Ordering::Equal)
        } else if a.1 < b.0 {
            Some(Ordering::Less)
        } else if b.1 < a.0 {
            Some(Ordering::Greater)
        } else {
            None
        };
        if ca.partial_cmp(&cb) != eo {
            return Some(format!("{}.partial_cmp({}) = {:?}, expected {:?}", ca, cb, ca.partial_cmp(&cb), eo));
        }
        if (ca == cb) != (a == b) {
            return Some(format!("{} == {} is {}", ca, cb, ca == cb));
        }
        // the comparison operators are the ones derived from the partial order
        let exp_ops = (eo == Some(Ordering::Less), matches!(eo, Some(Ordering::Less) | Some(Ordering::Equal)), eo == Some(Ordering::Greater), matches!(eo, Some(Ordering::Greater) | Some(Ordering::Equal)));
        let got_ops = (ca < cb, ca <= cb, ca > cb, ca >= cb);
        if got_ops != exp_ops {
            return Some(format!("{} vs {}: (<, <=, >, >=) = {:?} but the partial order (equal, or entirely before/after) gives {:?}", ca, cb, got_ops, exp_ops));
        }
        if CharSet::inter_list(&[ca, cb]) != ei {
            return Some(format!("inter_list([{}, {}]) = {:?}, expected {:?}", ca, cb, CharSet::inter_list(&[ca, cb]), ei));
        }
        None
    });
    match r {
        Ok(m) => m,
        Err(e) => Some(format!("CharSets {:?} {:?}: {}", (us[a.0].0, us[a.1].1), (us[b.0].0, us[b.1].1), e)),
    }
}

fn c20_triple(n: usize, l: &[(usize, usize)]) -> Option<String> {
    publish_case(|| json!({"kind": "list", "line": n, "list": l}));
    let us = units(n);
    let r = guarded(|| {
        let sets: Vec<CharSet> = l.iter().map(|x| CharSet::range(us[x.0].0, us[x.1].1)).collect();
        let lo = l.iter().map(|x| x.0).max().unwrap_or(0);
        let hi = l.iter().map(|x| x.1).min().unwrap_or(n - 1);
        let e = if lo <= hi { Some(CharSet::range(us[lo].0, us[hi].1)) } else { None };
        let g = CharSet::inter_list(&sets);
        (g != e).then(|| format!("inter_list({:?}) = {:?}, expected {:?}", sets.iter().map(|s| s.to_string()).collect::<Vec<_>>(), g, e))
    });
    match r {
        Ok(m) => m,
        Err(e) => Some(format!("inter_list {:?}: {}", l, e)),
    }
}

fn c20_run(ctx: &Ctx, batch: usize, nb: usize, rep: &mut Report) {
    // the landmark line: every interval and every ordered pair (no triples)
    {
        let n2 = landmark_units().len();
        let ivs: Vec<(usize, usize)> = (0..n2).flat_map(|i| (i..n2).map(move |j| (i, j))).collect();
        for (k, &a) in ivs.iter().enumerate() {
            if k % nb != batch {
                continue;
            }
            beat();
            rep.inc("evaluations");
            rep.inc("landmark_intervals");
            if let Some(m) = c20_single(n2, a) {
                rep.violation("C20", "c20", json!({"kind": "single", "line": n2, "a": [a.0, a.1]}), m);
            }
            for &b in &ivs {
                rep.inc("evaluations");
                if let Some(m) = c20_pair(n2, a, b) {
                    rep.violation("C20", "c20", json!({"kind": "pair", "line": n2, "a": [a.0, a.1], "b": [b.0, b.1]}), m);
                }
            }
        }
    }
    // every character as a singleton, as the lower end of [x, x+1], [x, x+255] and [x, MAX], and as the upper end of
    // [0, x] and of the interval that starts at its landmark block: no value is special to the statement
    {
        let marks: Vec<u32> = landmark_units().iter().map(|u| u.0).collect();
        for x in 0..=M {
            if x as usize % nb != batch {
                continue;
            }
            if x % 8192 == batch as u32 {
                beat();
            }
            let block_start = *marks.iter().rev().find(|&&m| m <= x).unwrap_or(&0);
            let mut cases = vec![(x, x), (0, x), (x, M), (block_start, x)];
            if x < M {
                cases.push((x, x + 1));
            }
            if x + 255 <= M {
                cases.push((x, x + 255));
            }
            for (lo, hi) in cases {
                rep.inc("evaluations");
                rep.inc("raw_intervals");
                if let Some(m) = c20_raw(lo, hi) {
                    rep.violation("C20", "c20", json!({"kind": "raw", "lo": lo, "hi": hi}), m);
                }
            }
        }
    }
    let n = c20_line(ctx.tier);
    let ivs: Vec<(usize, usize)> = (0..n).flat_map(|i| (i..n).map(move |j| (i, j))).collect();
    let mut k = 0usize;
    for &a in &ivs {
        k += 1;
        if k % nb != batch {
            continue;
        }
        beat();
        rep.inc("evaluations");
        if let Some(m) = c20_single(n, a) {
            rep.violation("C20", "c20", json!({"kind": "single", "line": n, "a": [a.0, a.1]}), m);
        }
        for &b in &ivs {
            rep.inc("evaluations");
            let (lo, hi) = (a.0.max(b.0), a.1.min(b.1));
            if lo == hi + 1 || lo == hi {
                rep.inc("nontrivial"); // pairs that are adjacent or share exactly one position
            }
            if let Some(m) = c20_pair(n, a, b) {
                rep.violation("C20", "c20", json!({"kind": "pair", "line": n, "a": [a.0, a.1], "b": [b.0, b.1]}), m);
            }
            for &c in &ivs {
                rep.inc("evaluations");
                if let Some(m) = c20_triple(n, &[a, b, c]) {
                    rep.violation("C20", "c20", json!({"kind": "list", "line": n, "list": [[a.0, a.1], [b.0, b.1], [c.0, c.1]]}), m);
                }
            }
        }
    }
    if batch == 0 {
        for l in [vec![], vec![(0usize, n - 1)], vec![(2usize, 3usize)]] {
            rep.inc("evaluations");
            if let Some(m) = c20_triple(n, &l) {
                rep.violation("C20", "c20", json!({"kind": "list", "line": n, "list": l}), m);
            }
        }
        let us = units(n);
        rep.sample(|| json!({"pair": [[us[0].0, us[1].1], [us[2].0, us[2].1]], "expect": "adjacent: union is the hull, inter is None, partial_cmp is Less"}));
        rep.sample(|| json!({"pair": [[0, 0], [0, M]], "expect": "union at 0 must not underflow"}));
    }
}

fn c20_replay(_ctx: &Ctx, c: &Value, rep: &mut Report) {
    let n = c["line"].as_u64().unwrap_or(9) as usize;
    let pr = |v: &Value| (v[0].as_u64().unwrap_or(0) as usize, v[1].as_u64().unwrap_or(0) as usize);
    rep.inc("evaluations");
    let m = match c["kind"].as_str().unwrap_or("") {
        "single" => c20_single(n, pr(&c["a"])),
        "pair" => c20_pair(n, pr(&c["a"]), pr(&c["b"])),
        "raw" => {
            let (lo, hi) = (c["lo"].as_u64().unwrap_or(0) as u32, c["hi"].as_u64().unwrap_or(0) as u32);
            if lo <= hi && hi <= M {
                c20_raw(lo, hi)
            } else {
                None
            }
        }
        _ => c20_triple(n, &parse_part(&c["list"])),
    };
    if let Some(m) = m {
        rep.violation("C20", "c20", c.clone(), m);
    }
}

fn c20_meta(ctx: &Ctx) -> Meta {
    // (the landmark line is described in the rule text below)
    let n = c20_line(ctx.tier);
    Meta {
        level: "exploration",
        rule: format!("all {} intervals over a compressed line of {} positions: every (interval, character), every ordered pair (inter, union, covers, partial_cmp, ==) and every ordered triple (inter_list; plus the empty and one-element lists) against set arithmetic over positions; run in the release profile (wrapping arithmetic) and the dev profile (overflow traps); non-trivial = ordered pairs that are adjacent or overlap in exactly one position", n * (n + 1) / 2, n),
        assumptions: vec!["CharSet operations only compare end points and add/subtract 1, so the compressed line realises every case, including adjacency at 0 and at MAX_CHAR".into()],
        exhaustive: true,
        space: format!("compressed line {:?}; and a landmark line (single positions at 0x7F/0x80, 0xFF/0x100, 0x7FF/0x800, 0xD7FF/0xD800, 0xDFFF/0xE000, 0xFFFD-0xFFFF/0x10000, 0x1FFFF/0x20000 with fat positions between them) on which every interval and every ordered pair is checked in the same way; and, for every character x of the alphabet, the intervals [x,x], [x,x+1], [x,x+255], [x,MAX], [0,x] and [start of x's landmark block, x] (size, pick, membership at and around the end points, pick of the one-interval partition)", units(n)),
    }
}

pub fn c20_engine() -> SimpleEngine {
    SimpleEngine { name: "c20", nb: |_| NB, run: c20_run, replay: c20_replay, meta: c20_meta, hang_violation: true }
}

// =============================================================================================
// C15

const H: u32 = 900;
type R = (u32, Option<u32>);
fn rj(r: R) -> Value {
    json!([r.0, r.1])
}

fn lr(r: R) -> LoopRange {
    match r.1 {
        Some(j) => LoopRange::finite(r.0, j),
        None => LoopRange::infinite(r.0),
    }
}
fn show_r(r: R) -> String {
    match r.1 {
        Some(j) => format!("[{},{}]", r.0, j),
        None => format!("[{},inf)", r.0),
    }
}
/// the set denoted by a range, truncated at H
fn set_of(r: R) -> BTreeSet<u32> {
    (r.0..=r.1.unwrap_or(H).min(H)).collect()
}
/// what the library says the range contains, up to H
fn dump(r: &LoopRange) -> BTreeSet<u32> {
    (0..=H).filter(|&x| r.contains(x)).collect()
}
fn below(s: &BTreeSet<u32>, lim: u32) -> BTreeSet<u32> {
    s.iter().copied().filter(|&x| x <= lim).collect()
}

fn c15_single(r: R, nmax: u32) -> Option<String> {
    publish_case(|| json!({"kind": "single", "r": rj(r), "n": nmax}));
    let lim = H / 3;
    let res = guarded(|| {
        let x = lr(r);
        if dump(&x) != set_of(r) {
            return Some(format!("contains() of {} describes {:?}...", show_r(r), dump(&x).iter().take(20).collect::<Vec<_>>()));
        }
        if x.start() != r.0 || x.is_finite() != r.1.is_some() || x.is_infinite() != r.1.is_none() {
            return Some(format!("start/is_finite/is_infinite of {}", show_r(r)));
        }
        if x.is_point() != (r.1 == Some(r.0)) || x.is_zero() != (r == (0, Some(0))) || x.is_one() != (r == (1, Some(1))) || x.is_all() != (r == (0, None)) {
            return Some(format!("is_point/is_zero/is_one/is_all of {}", show_r(r)));
        }
        // shift: the set of predecessors, 0 kept at 0
        let e: BTreeSet<u32> = set_of(r).iter().map(|&v| v.saturating_sub(1)).collect();
        let g = dump(&x.shift());
        if below(&g, lim) != below(&e, lim) || x.shift().is_finite() != r.1.is_some() {
            return Some(format!("{}.shift() = {}, expected the predecessors {:?}..", show_r(r), x.shift(), below(&e, 12)));
        }
        // scale(k): k-fold sums
        for k in 0..=nmax {
            let mut acc: BTreeSet<u32> = [0].into();
            let base: Vec<u32> = set_of(r).into_iter().collect();
            for _ in 0..k {
                let mut nx = BTreeSet::new();
                for &a in &acc {
                    for &b in &base {
                        if a + b > lim {
                            break;
                        }
                        nx.insert(a + b);
                    }
                }
                acc = nx;
            }
            let sc = x.scale(k);
            if below(&dump(&sc), lim) != acc {
                return Some(format!("{}.scale({}) = {}, expected the {}-fold sums {:?}..", show_r(r), k, sc, k, below(&acc, 15)));
            }
            let fin = r.1.is_some() || k == 0;
            if sc.is_finite() != fin {
                return Some(format!("{}.scale({}) = {}: finiteness is wrong", show_r(r), k, sc));
            }
            // add_point
            let ap = x.add_point(k);
            let e: BTreeSet<u32> = set_of(r).iter().map(|&v| v + k).filter(|&v| v <= lim).collect();
            if below(&dump(&ap), lim) != e {
                return Some(format!("{}.add_point({}) = {}", show_r(r), k, ap));
            }
        }
        None
    });
    match res {
        Ok(m) => m,
        Err(e) => Some(format!("LoopRange {}: {}", show_r(r), e)),
    }
}

fn c15_pair(r: R, s: R) -> Option<String> {
    publish_case(|| json!({"kind": "pair", "r": rj(r), "s": rj(s)}));
    let lim = H / 3;
    let res = guarded(|| {
        let (x, y) = (lr(r), lr(s));
        // add: exactly the sums
        let mut e = BTreeSet::new();
        for a in set_of(r) {
            for b in set_of(s) {
                if a + b <= lim {
                    e.insert(a + b);
                }
            }
        }
        let sum = x.add(&y);
        if below(&dump(&sum), lim) != e || sum.is_finite() != (r.1.is_some() && s.1.is_some()) {
            return Some(format!("{}.add({}) = {}, expected the sums {:?}..", show_r(r), show_r(s), sum, below(&e, 15)));
        }
        // includes: set inclusion
        let inc = match (r.1, s.1) {
            (Some(_), None) => false,
            _ => r.0 <= s.0 && (r.1.is_none() || s.1.unwrap() <= r.1.unwrap()),
        };
        if x.includes(&y) != inc {
            return Some(format!("{}.includes({}) = {}, set inclusion says {}", show_r(r), show_r(s), x.includes(&y), inc));
        }
        // mul contains every product
        let m = x.mul(&y);
        // members to multiply: the first 16, the last one of a finite range, far-away members of an infinite one (a
        // finite result, however large its end, cannot contain all products of an infinite operand)
        let members = |q: R| -> Vec<u32> {
            let mut v: Vec<u32> = set_of(q).into_iter().take(16).collect();
            match q.1 {
                Some(e) => v.push(e),
                None => v.extend([q.0 + 1000, q.0 + 50_000]),
            }
            v
        };
        for a in members(r) {
            for b in members(s) {
                if !m.contains(a * b) {
                    return Some(format!("{}.mul({}) = {} does not contain {}*{}", show_r(r), show_r(s), m, a, b));
                }
            }
        }
        // exactness: union over y in s of the y-fold sums of r == mul, on [0, lim]
        let mut u = BTreeSet::new();
        let ymax = s.1.unwrap_or(H).min(H);
        for yv in s.0..=ymax {
            let lo = yv * r.0;
            if lo > lim && r.0 > 0 {
                break;
            }
            let hi = match r.1 {
                Some(b) => yv * b,
                None => {
                    if yv == 0 {
                        0
                    } else {
                        H
                    }
                }
            };
            for v in lo..=hi.min(lim) {
                u.insert(v);
            }
        }
        let exact = u == below(&dump(&m), lim);
        let got = x.right_mul_is_exact(&y);
        if got != exact {
            return Some(format!("{}.right_mul_is_exact({}) = {} but the union of the y-fold sums {} the interval {} (union = {:?}..)", show_r(r), show_r(s), got, if exact { "equals" } else { "differs from" }, m, below(&u, 30)));
        }
        None
    });
    match res {
        Ok(m) => m,
        Err(e) => Some(format!("LoopRange {} {}: {}", show_r(r), show_r(s), e)),
    }
}

/// Closed-form oracle for large bounds (cross-checked against the brute-force oracle on all small pairs in every run):
/// the union over y in [c,d] of [y*a, y*b] has no gap iff c == d, or (b infinite: c >= 1 or a <= 1), or c*(b-a) >= a-1.
fn closed_form_exact(r: R, s: R) -> bool {
    let (a, c) = (r.0 as u128, s.0 as u128);
    if s.1 == Some(s.0) {
        return true;
    }
    match r.1 {
        None => c >= 1 || a <= 1,
        Some(b) => c * (b as u128 - a) + 1 >= a,
    }
}

/// large operands: only the exactness criterion and mul's hull (products that overflow u32 panic as documented and are skipped)
fn c15_big(r: R, s: R) -> Option<String> {
    publish_case(|| json!({"kind": "big", "r": rj(r), "s": rj(s)}));
    // set inclusion and membership need no arithmetic: checked for every pair
    let inc = guarded(|| {
        let (x, y) = (lr(r), lr(s));
        let exp = match (r.1, s.1) {
            (Some(_), None) => false,
            _ => r.0 <= s.0 && (r.1.is_none() || s.1.unwrap() <= r.1.unwrap()),
        };
        if x.includes(&y) != exp {
            return Some(format!("{}.includes({}) = {}, set inclusion says {}", show_r(r), show_r(s), x.includes(&y), exp));
        }
        for v in [r.0.saturating_sub(1), r.0, r.1.unwrap_or(u32::MAX), r.1.map(|b| b.saturating_add(1)).unwrap_or(u32::MAX)] {
            let e = r.0 <= v && r.1.map(|b| v <= b).unwrap_or(true);
            if x.contains(v) != e {
                return Some(format!("{}.contains({}) = {}", show_r(r), v, x.contains(v)));
            }
        }
        None
    });
    match inc {
        Ok(Some(m)) => return Some(m),
        Err(e) => return Some(format!("LoopRange {} {}: {}", show_r(r), show_r(s), e)),
        Ok(None) => {}
    }
    // skip documented overflow panics of mul32
    let lo = r.0 as u128 * s.0 as u128;
    let hi = match (r.1, s.1) {
        (Some(b), Some(d)) => Some(b as u128 * d as u128),
        _ => None,
    };
    let zero = |x: R| x == (0, Some(0));
    if !zero(r) && !zero(s) && (lo > u32::MAX as u128 || hi.map(|h| h > u32::MAX as u128).unwrap_or(false)) {
        return None;
    }
    // c*(b-a) is computed by the library with mul32 as well
    if let Some(b) = r.1 {
        if s.0 as u128 * (b as u128 - r.0 as u128) > u32::MAX as u128 {
            return None;
        }
    }
    let res = guarded(|| {
        let (x, y) = (lr(r), lr(s));
        let m = x.mul(&y);
        // the hull of the union
        let (elo, ehi): (u128, Option<u128>) = if zero(r) || zero(s) { (0, Some(0)) } else { (lo, hi) };
        let mut hull_ok = m.start() as u128 == elo && m.is_finite() == ehi.is_some();
        if let Some(h) = ehi {
            hull_ok &= m.contains(h as u32) && (h >= u32::MAX as u128 || !m.contains(h as u32 + 1));
        }
        // mul must contain every product (in particular the extreme ones); exactness means the union equals the
        // interval mul returns, i.e. the union is gap-free and mul is exactly its hull
        let mut products_ok = m.contains(elo as u32);
        if let Some(h) = ehi {
            products_ok &= m.contains(h as u32);
        }
        if !products_ok {
            return Some(format!("{}.mul({}) = {} does not contain the extreme products {} / {:?}", show_r(r), show_r(s), m, elo, ehi));
        }
        let exp = closed_form_exact(r, s) && hull_ok;
        let got = x.right_mul_is_exact(&y);
        (got != exp).then(|| format!("{}.right_mul_is_exact({}) = {}, but the union over y of [y*{}, y*b] {} a gap", show_r(r), show_r(s), got, r.0, if exp { "has no" } else { "has" }))
    });
    match res {
        Ok(m) => m,
        Err(e) => Some(format!("LoopRange {} {}: {}", show_r(r), show_r(s), e)),
    }
}


/// large operands of the unary and additive operations: the result is either the exact range (when it is
/// representable) or a panic (documented for arithmetic overflow); a wrong or widened range is a violation
fn c15_big_arith(r: R, k: u32, s: R) -> Option<String> {
    publish_case(|| json!({"kind": "bigarith", "r": rj(r), "k": k, "s": rj(s)}));
    let x = lr(r);
    let describe = |got: &LoopRange, lo: u128, hi: Option<u128>| -> bool {
        // exact comparison through start / finiteness / membership of the end points
        if got.start() as u128 != lo || got.is_finite() != hi.is_some() {
            return false;
        }
        match hi {
            Some(h) => h <= u32::MAX as u128 && got.contains(h as u32) && (h == u32::MAX as u128 || !got.contains(h as u32 + 1)),
            None => true,
        }
    };
    // scale(k)
    {
        let (lo, hi) = if k == 0 { (0u128, Some(0u128)) } else { (r.0 as u128 * k as u128, r.1.map(|b| b as u128 * k as u128)) };
        let fits = lo <= u32::MAX as u128 && hi.map(|h| h <= u32::MAX as u128).unwrap_or(true);
        match guarded(|| x.scale(k)) {
            Ok(g) => {
                if !fits {
                    return Some(format!("{}.scale({}) = {} although the {}-fold sum [{}, {:?}] is not representable (the documented outcome is a panic)", show_r(r), k, g, k, lo, hi));
                }
                if !describe(&g, lo, hi) {
                    return Some(format!("{}.scale({}) = {}, expected [{}, {:?}]", show_r(r), k, g, lo, hi));
                }
            }
            Err(e) => {
                if fits {
                    return Some(format!("{}.scale({}) {} although the result [{}, {:?}] is representable", show_r(r), k, e, lo, hi));
                }
            }
        }
    }
    // add(s) and add_point(k)
    {
        let y = lr(s);
        let (lo, hi) = (r.0 as u128 + s.0 as u128, match (r.1, s.1) { (Some(b), Some(d)) => Some(b as u128 + d as u128), _ => None });
        let fits = lo <= u32::MAX as u128 && hi.map(|h| h <= u32::MAX as u128).unwrap_or(true);
        match guarded(|| x.add(&y)) {
            Ok(g) => {
                if fits && !describe(&g, lo, hi) {
                    return Some(format!("{}.add({}) = {}, expected [{}, {:?}]", show_r(r), show_r(s), g, lo, hi));
                }
                if !fits {
                    return Some(format!("{}.add({}) = {} although the set of sums [{}, {:?}] is not representable", show_r(r), show_r(s), g, lo, hi));
                }
            }
            Err(e) => {
                if fits {
                    return Some(format!("{}.add({}) {} although the result is representable", show_r(r), show_r(s), e));
                }
            }
        }
        let (lo, hi) = (r.0 as u128 + k as u128, r.1.map(|b| b as u128 + k as u128));
        let fits = lo <= u32::MAX as u128 && hi.map(|h| h <= u32::MAX as u128).unwrap_or(true);
        match guarded(|| x.add_point(k)) {
            Ok(g) => {
                if fits && !describe(&g, lo, hi) {
                    return Some(format!("{}.add_point({}) = {}, expected [{}, {:?}]", show_r(r), k, g, lo, hi));
                }
                if !fits {
                    return Some(format!("{}.add_point({}) = {} although the result is not representable", show_r(r), k, g));
                }
            }
            Err(e) => {
                if fits {
                    return Some(format!("{}.add_point({}) {} although the result is representable", show_r(r), k, e));
                }
            }
        }
    }
    // shift never overflows
    match guarded(|| x.shift()) {
        Ok(g) => {
            let (lo, hi) = (r.0.saturating_sub(1) as u128, r.1.map(|b| b.saturating_sub(1) as u128));
            if !describe(&g, lo, hi) {
                return Some(format!("{}.shift() = {}, expected [{}, {:?}]", show_r(r), g, lo, hi));
            }
        }
        Err(e) => return Some(format!("{}.shift() {}", show_r(r), e)),
    }
    None
}

fn c15_big_ranges() -> (Vec<R>, Vec<R>) {
    let p31: u32 = 1 << 31;
    let big: Vec<u32> = vec![100, 1431, 42949, 65534, 65535, 65536, 65537, 100_000, 1_000_000, 3_000_000, p31 - 2, p31 - 1, p31, p31 + 1, 3_000_000_000, u32::MAX / 2, u32::MAX - 2, u32::MAX - 1, u32::MAX];
    let mut rs: Vec<R> = vec![];
    for &a in &big {
        rs.push((a, None));
        for w in [0u32, 1, 2, 1000, 1375, p31 - 1, p31, p31 + 1, u32::MAX - a] {
            if let Some(b) = a.checked_add(w) {
                rs.push((a, Some(b)));
            }
        }
    }
    for &a in &[0u32, 1, 2, 1000] {
        for b in [p31 - 1, p31, p31 + 1, 2147484648, 1_500_000_000, u32::MAX - 1, u32::MAX] {
            rs.push((a, Some(b)));
        }
    }
    let mut ss: Vec<R> = vec![];
    for c in 0..=3u32 {
        ss.push((c, None));
        for d in c..=3 {
            ss.push((c, Some(d)));
        }
    }
    ss.push((1000, Some(1001)));
    for c in [1431u32, 42949, 65534, 65535, 65536, 65537] {
        ss.push((c, None));
        ss.push((c, Some(c)));
        ss.push((c, Some(c + 1)));
    }
    // the border of the exactness criterion c*(b-a) >= a-1 at large values: a-1 = c*w + rem for rem around 0 and c
    // (operands and differences above 2^16, where a "safe" re-formulation with divisions would round)
    for c in [2u32, 3, 5, 7, 1000, 65_537, 70_000] {
        for w in [3u32, 1000, 40_000, 65_535, 65_536, 70_001, 100_000, 1 << 20] {
            let cw = c as u64 * w as u64;
            for rem in [0u64, 1, 2, c as u64 - 1, c as u64, c as u64 + 1] {
                let a = cw + 1 + rem;
                // everything the library multiplies must fit: (c+1)*(a+w) below 2^32
                if a + (w as u64) < (1u64 << 32) && (c as u64 + 1) * (a + w as u64) < (1u64 << 32) {
                    rs.push((a as u32, Some(a as u32 + w)));
                    if a > 0 {
                        rs.push((a as u32 - 1, Some(a as u32 - 1 + w)));
                    }
                }
            }
        }
        ss.push((c, Some(c + 1)));
        ss.push((c, Some(c)));
        ss.push((c, None));
    }
    // products that straddle 2^32: c*a < 2^32 <= c*b with a narrow r = [b-w, b] and s = [c, inf) (the union has a hole
    // right after c*b unless c*w >= a-1; arithmetic that saturates instead of failing answers "no gap")
    for c in [3u32, 1000, 4294, 14316, 61356, 65536, 70000] {
        let b = ((1u64 << 32) + c as u64 - 1) / c as u64;
        for w in [1u64, 2, 13, 230, 70000] {
            if b > w && (b - w) * (c as u64) < (1u64 << 32) && b <= u32::MAX as u64 {
                rs.push(((b - w) as u32, Some(b as u32)));
            }
        }
        ss.push((c, None));
        ss.push((c, Some(c + 1)));
    }
    ss.sort();
    ss.dedup();
    rs.sort();
    rs.dedup();
    (rs, ss)
}

fn c15_ranges(nmax: u32) -> Vec<R> {
    let mut rs = vec![];
    for i in 0..=nmax {
        for j in i..=nmax {
            rs.push((i, Some(j)));
        }
        rs.push((i, None));
    }
    rs
}
fn c15_n(tier: Tier) -> u32 {
    if tier == Tier::Thorough {
        16
    } else {
        8
    }
}

fn c15_run(ctx: &Ctx, batch: usize, nb: usize, rep: &mut Report) {
    let nmax = c15_n(ctx.tier);
    let rs = c15_ranges(nmax);
    for (k, &r) in rs.iter().enumerate() {
        if k % nb != batch {
            continue;
        }
        beat();
        rep.inc("evaluations");
        if let Some(m) = c15_single(r, nmax) {
            rep.violation("C15", "c15", json!({"kind": "single", "r": rj(r), "n": nmax}), m);
        }
        for &s in &rs {
            rep.inc("evaluations");
            let exact = guarded(|| lr(r).right_mul_is_exact(&lr(s))).unwrap_or(false);
            rep.hist("right_mul_is_exact", if exact { "true" } else { "false" });
            if !exact {
                rep.inc("nontrivial"); // pairs for which flattening a loop of a loop would be unsound
            }
            if let Some(m) = c15_pair(r, s) {
                rep.violation("C15", "c15", json!({"kind": "pair", "r": rj(r), "s": rj(s)}), m);
            }
            // machinery self-check: the closed form used for large operands agrees with the brute-force oracle
            if c15_pair(r, s).is_none() && closed_form_exact(r, s) != exact {
                rep.note(format!("CLOSED FORM MISMATCH {} {}", show_r(r), show_r(s)));
                rep.inc("closed_form_mismatch");
            }
        }
    }
    // operands near 2^16, 2^31 and 2^32
    let (brs, bss) = c15_big_ranges();
    let mut k = 0usize;
    for &r in &brs {
        for &s in &bss {
            k += 1;
            if k % nb != batch {
                continue;
            }
            rep.inc("evaluations");
            rep.inc("big_pairs");
            if let Some(m) = c15_big(r, s) {
                rep.violation("C15", "c15", json!({"kind": "big", "r": rj(r), "s": rj(s)}), m);
            }
            // and with the roles exchanged (small first)
            rep.inc("evaluations");
            if let Some(m) = c15_big(s, r) {
                rep.violation("C15", "c15", json!({"kind": "big", "r": rj(s), "s": rj(r)}), m);
            }
        }
    }
    // scale / add / add_point / shift on the large ranges: the exact result or the documented overflow panic
    let ks: [u32; 10] = [0, 1, 2, 3, 7, 65_535, 65_536, 70_000, 1_431_655_766, u32::MAX];
    for (ri, &r) in brs.iter().enumerate() {
        if ri % nb != batch {
            continue;
        }
        for (ki, &kk) in ks.iter().enumerate() {
            let s2 = brs[(ri * 7 + ki * 13 + 1) % brs.len()];
            rep.inc("evaluations");
            rep.inc("big_arith");
            if let Some(m) = c15_big_arith(r, kk, s2) {
                rep.violation("C15", "c15", json!({"kind": "bigarith", "r": rj(r), "k": kk, "s": rj(s2)}), m);
            }
            let s3 = bss[(ri + ki) % bss.len()];
            rep.inc("evaluations");
            if let Some(m) = c15_big_arith(s3, kk, r) {
                rep.violation("C15", "c15", json!({"kind": "bigarith", "r": rj(s3), "k": kk, "s": rj(r)}), m);
            }
        }
    }
    if batch == 0 {
        rep.sample(|| json!({"r": "[4,6]", "s": "[1,2]", "union_of_y_fold_sums": "4..6 and 8..12 (7 missing)", "mul": "[4,12]", "exact": false}));
        rep.sample(|| json!({"r": "[2,inf)", "shift": "[1,inf)"}));
    }
}

fn c15_replay(_ctx: &Ctx, c: &Value, rep: &mut Report) {
    let pr = |v: &Value| -> R { (v[0].as_u64().unwrap_or(0) as u32, v[1].as_u64().map(|x| x as u32)) };
    rep.inc("evaluations");
    let m = match c["kind"].as_str().unwrap_or("") {
        "single" => c15_single(pr(&c["r"]), c["n"].as_u64().unwrap_or(8) as u32),
        "big" => c15_big(pr(&c["r"]), pr(&c["s"])),
        "bigarith" => c15_big_arith(pr(&c["r"]), c["k"].as_u64().unwrap_or(0) as u32, pr(&c["s"])),
        _ => c15_pair(pr(&c["r"]), pr(&c["s"])),
    };
    if let Some(m) = m {
        rep.violation("C15", "c15", c.clone(), m);
    }
}

fn c15_meta(ctx: &Ctx) -> Meta {
    let n = c15_n(ctx.tier);
    let k = c15_ranges(n).len();
    Meta {
        level: "exploration",
        rule: format!("all {} ranges [i,j] and [i,inf) with i <= j <= {}, all {} ordered pairs and all scale factors 0..{}: contains, shift, scale, add_point, add, includes, mul and right_mul_is_exact against explicit finite sets of naturals truncated at {} and compared on [0,{}]; plus operands near 2^16, 2^31 and 2^32 (exactness and mul's hull against a closed form in u128 arithmetic that is cross-checked against the brute-force oracle on every small pair); run in the release and dev profiles; non-trivial = ordered pairs for which the exactness criterion must answer false", k, n, k * k, n, H, H / 3),
        assumptions: vec![format!("truncation is sound for these bounds: with bounds <= {} every gap between consecutive multiples y*[a,b] appears below {}", n, H / 3)],
        exhaustive: true,
        space: format!("bounds 0..={}", n),
    }
}

pub fn c15_engine() -> SimpleEngine {
    SimpleEngine { name: "c15", nb: |_| NB, run: c15_run, replay: c15_replay, meta: c15_meta, hang_violation: true }
}
