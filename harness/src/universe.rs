//! The character universe: a fixed decomposition of [0, MAX_CHAR] into regions.
//! Programs only use ranges that are unions of consecutive regions, so the specification side
//! cannot distinguish two characters of one region; the implementation is driven on both end
//! points of every region.

use aws_smt_strings::smt_strings::MAX_CHAR;

#[derive(Clone, Debug, PartialEq, Eq)]
pub struct Universe {
    pub id: usize,
    pub regions: Vec<(u32, u32)>,
    pub reps: Vec<u32>,
    pub rep_region: Vec<usize>,
}

pub const A: u32 = 'a' as u32;

impl Universe {
    pub fn new(id: usize) -> Universe {
        let regions: Vec<(u32, u32)> = match id {
            // the default: three adjacent singletons in the middle, fat regions around, MAX alone
            0 => vec![(0, A - 1), (A, A), (A + 1, A + 1), (A + 2, A + 2), (A + 3, MAX_CHAR - 1), (MAX_CHAR, MAX_CHAR)],
            // singletons at 0 and 1, split at the BMP border, two-character region at the top
            1 => vec![(0, 0), (1, 1), (2, 0xFFFF), (0x10000, 0x10000), (0x10001, MAX_CHAR - 2), (MAX_CHAR - 1, MAX_CHAR)],
            // digits and the characters around them
            2 => vec![(0, 0x2F), (0x30, 0x30), (0x31, 0x38), (0x39, 0x39), (0x3A, 0x3A), (0x3B, MAX_CHAR)],
            // twelve adjacent single characters (states with many explicit intervals), the rest of the alphabet around them
            3 => {
                let mut v = vec![(0, A - 1)];
                for i in 0..12 {
                    v.push((A + i, A + i));
                }
                v.push((A + 12, MAX_CHAR - 1));
                v.push((MAX_CHAR, MAX_CHAR));
                v
            }
            // two characters that differ by 256 (and their neighbours): truncated table indices
            4 => vec![(0, 0x41), (0x42, 0x42), (0x43, 0x141), (0x142, 0x142), (0x143, MAX_CHAR)],
            _ => panic!("unknown universe"),
        };
        let mut reps = vec![];
        let mut rep_region = vec![];
        for (i, &(l, h)) in regions.iter().enumerate() {
            reps.push(l);
            rep_region.push(i);
            if h != l {
                reps.push(h);
                rep_region.push(i);
            }
        }
        Universe { id, regions, reps, rep_region }
    }
    pub fn k(&self) -> usize {
        self.regions.len()
    }
    pub fn region_of(&self, c: u32) -> usize {
        self.regions.iter().position(|&(l, h)| l <= c && c <= h).expect("char outside the alphabet")
    }
    /// regions that are a single character (usable in str / char atoms)
    pub fn singleton_chars(&self) -> Vec<u32> {
        self.regions.iter().filter(|r| r.0 == r.1).map(|r| r.0).collect()
    }
    pub fn word_to_regions(&self, w: &[u32]) -> Vec<usize> {
        w.iter().map(|&c| self.region_of(c)).collect()
    }
    /// region mask of the raw range [lo,hi] if it is region aligned
    pub fn aligned_mask(&self, lo: u32, hi: u32) -> Option<u64> {
        if lo > hi {
            return Some(0);
        }
        if !self.regions.iter().any(|r| r.0 == lo) || !self.regions.iter().any(|r| r.1 == hi) {
            return None;
        }
        let mut m = 0u64;
        for (x, r) in self.regions.iter().enumerate() {
            if lo <= r.0 && r.1 <= hi {
                m |= 1 << x;
            }
        }
        Some(m)
    }
}
