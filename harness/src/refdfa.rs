//! Reference DFA algebra over a small atom alphabet (boring, independent of the crate under test)
use std::collections::HashMap;

#[derive(Clone, Debug, PartialEq, Eq, Hash)]
pub struct Dfa {
    pub k: usize,
    pub init: usize,
    pub acc: Vec<bool>,
    pub delta: Vec<usize>, // n*k
}

impl Dfa {
    pub fn n(&self) -> usize {
        self.acc.len()
    }
    pub fn step(&self, q: usize, x: usize) -> usize {
        self.delta[q * self.k + x]
    }
    pub fn accepts(&self, w: &[usize]) -> bool {
        let mut q = self.init;
        for &x in w {
            q = self.step(q, x);
        }
        self.acc[q]
    }
    pub fn empty(k: usize) -> Dfa {
        Dfa { k, init: 0, acc: vec![false], delta: vec![0; k] }
    }
    pub fn eps(k: usize) -> Dfa {
        let mut d = vec![1; 2 * k];
        for x in 0..k {
            d[k + x] = 1;
        }
        Dfa { k, init: 0, acc: vec![true, false], delta: d }
    }
    /// one-letter words whose letter is in mask
    pub fn letters(k: usize, mask: u64) -> Dfa {
        let mut d = vec![2; 3 * k];
        for x in 0..k {
            if mask >> x & 1 == 1 {
                d[x] = 1;
            }
        }
        Dfa { k, init: 0, acc: vec![false, true, false], delta: d }
    }
    pub fn complement(&self) -> Dfa {
        let mut r = self.clone();
        for a in r.acc.iter_mut() {
            *a = !*a;
        }
        r
    }
    pub fn product(&self, other: &Dfa, op: fn(bool, bool) -> bool) -> Dfa {
        let k = self.k;
        let mut ids: HashMap<(usize, usize), usize> = HashMap::new();
        let mut list = vec![(self.init, other.init)];
        ids.insert((self.init, other.init), 0);
        let mut delta = Vec::new();
        let mut acc = Vec::new();
        let mut i = 0;
        while i < list.len() {
            let (a, b) = list[i];
            acc.push(op(self.acc[a], other.acc[b]));
            for x in 0..k {
                let t = (self.step(a, x), other.step(b, x));
                let n = list.len();
                let id = *ids.entry(t).or_insert_with(|| {
                    list.push(t);
                    n
                });
                delta.push(id);
            }
            i += 1;
        }
        Dfa { k, init: 0, acc, delta }.minimize()
    }
    pub fn union(&self, o: &Dfa) -> Dfa {
        self.product(o, |a, b| a || b)
    }
    pub fn inter(&self, o: &Dfa) -> Dfa {
        self.product(o, |a, b| a && b)
    }
    pub fn concat(&self, o: &Dfa) -> Dfa {
        let k = self.k;
        // state: (a, sorted set of b states)
        let start_set: Vec<usize> = if self.acc[self.init] { vec![o.init] } else { vec![] };
        let mut ids: HashMap<(usize, Vec<usize>), usize> = HashMap::new();
        let mut list = vec![(self.init, start_set.clone())];
        ids.insert((self.init, start_set), 0);
        let mut delta = Vec::new();
        let mut acc = Vec::new();
        let mut i = 0;
        while i < list.len() {
            let (a, s) = list[i].clone();
            acc.push(s.iter().any(|&b| o.acc[b]));
            for x in 0..k {
                let a2 = self.step(a, x);
                let mut s2: Vec<usize> = s.iter().map(|&b| o.step(b, x)).collect();
                if self.acc[a2] {
                    s2.push(o.init);
                }
                s2.sort_unstable();
                s2.dedup();
                let t = (a2, s2);
                let n = list.len();
                let id = match ids.get(&t) {
                    Some(&id) => id,
                    None => {
                        ids.insert(t.clone(), n);
                        list.push(t);
                        n
                    }
                };
                delta.push(id);
            }
            i += 1;
        }
        Dfa { k, init: 0, acc, delta }.minimize()
    }
    /// L+ (one or more)
    pub fn plus(&self) -> Dfa {
        let k = self.k;
        let start = vec![self.init];
        let mut ids: HashMap<Vec<usize>, usize> = HashMap::new();
        let mut list = vec![start.clone()];
        ids.insert(start, 0);
        let mut delta = Vec::new();
        let mut acc = Vec::new();
        let mut i = 0;
        while i < list.len() {
            let s = list[i].clone();
            acc.push(s.iter().any(|&a| self.acc[a]));
            for x in 0..k {
                let mut s2: Vec<usize> = s.iter().map(|&a| self.step(a, x)).collect();
                if s2.iter().any(|&a| self.acc[a]) {
                    s2.push(self.init);
                }
                s2.sort_unstable();
                s2.dedup();
                let n = list.len();
                let id = match ids.get(&s2) {
                    Some(&id) => id,
                    None => {
                        ids.insert(s2.clone(), n);
                        list.push(s2);
                        n
                    }
                };
                delta.push(id);
            }
            i += 1;
        }
        Dfa { k, init: 0, acc, delta }.minimize()
    }
    pub fn star(&self) -> Dfa {
        Dfa::eps(self.k).union(&self.plus())
    }
    pub fn power(&self, n: u32) -> Dfa {
        let mut r = Dfa::eps(self.k);
        for _ in 0..n {
            r = r.concat(self);
        }
        r
    }
    /// union of L^k for k in [i, j] (j = None: unbounded)
    pub fn repeat(&self, i: u32, j: Option<u32>) -> Dfa {
        let base = self.power(i);
        match j {
            None => base.concat(&self.star()),
            Some(j) => {
                assert!(i <= j);
                let opt = Dfa::eps(self.k).union(self);
                let mut r = base;
                for _ in i..j {
                    r = r.concat(&opt);
                }
                r
            }
        }
    }
    pub fn is_empty_lang(&self) -> bool {
        // after minimize: only reachable states remain
        !self.acc.iter().any(|&a| a)
    }
    /// Moore minimization of the reachable part, canonical BFS numbering
    pub fn minimize(&self) -> Dfa {
        let k = self.k;
        // reachable
        let mut order = vec![self.init];
        let mut seen = vec![false; self.n()];
        seen[self.init] = true;
        let mut i = 0;
        while i < order.len() {
            let q = order[i];
            for x in 0..k {
                let t = self.step(q, x);
                if !seen[t] {
                    seen[t] = true;
                    order.push(t);
                }
            }
            i += 1;
        }
        // classes
        let mut cls: Vec<usize> = (0..self.n()).map(|q| self.acc[q] as usize).collect();
        loop {
            let mut sig: HashMap<(usize, Vec<usize>), usize> = HashMap::new();
            let mut ncls = cls.clone();
            for &q in &order {
                let s: Vec<usize> = (0..k).map(|x| cls[self.step(q, x)]).collect();
                let n = sig.len();
                let id = *sig.entry((cls[q], s)).or_insert(n);
                ncls[q] = id;
            }
            let old: std::collections::HashSet<usize> = order.iter().map(|&q| cls[q]).collect();
            let changed = sig.len() != old.len();
            cls = ncls;
            if !changed {
                break;
            }
        }
        // canonical renumber by BFS from init over classes
        let mut cid: HashMap<usize, usize> = HashMap::new();
        let mut reps = vec![self.init];
        cid.insert(cls[self.init], 0);
        let mut delta = Vec::new();
        let mut acc = Vec::new();
        let mut i = 0;
        while i < reps.len() {
            let q = reps[i];
            acc.push(self.acc[q]);
            for x in 0..k {
                let t = self.step(q, x);
                let n = reps.len();
                let id = match cid.get(&cls[t]) {
                    Some(&id) => id,
                    None => {
                        cid.insert(cls[t], n);
                        reps.push(t);
                        n
                    }
                };
                delta.push(id);
            }
            i += 1;
        }
        Dfa { k, init: 0, acc, delta }
    }
    /// language inclusion self ⊆ other
    pub fn subset_of(&self, o: &Dfa) -> bool {
        self.product(o, |a, b| a && !b).is_empty_lang()
    }
}

impl Dfa {
    /// all words (universal language)
    pub fn all(k: usize) -> Dfa {
        Dfa { k, init: 0, acc: vec![true], delta: vec![0; k] }
    }
    /// words of length between i and j all of whose letters are in mask
    pub fn counter(k: usize, mask: u64, i: u32, j: u32) -> Dfa {
        let n = j as usize + 2; // states 0..=j count letters, state j+1 is the sink
        let sink = j as usize + 1;
        let mut delta = vec![sink; n * k];
        for q in 0..=j as usize {
            for x in 0..k {
                if mask >> x & 1 == 1 && q < j as usize {
                    delta[q * k + x] = q + 1;
                }
            }
        }
        let acc: Vec<bool> = (0..n).map(|q| q <= j as usize && q >= i as usize).collect();
        Dfa { k, init: 0, acc, delta }
    }
    /// canonical DFA of the left quotient by one letter
    pub fn quotient(&self, x: usize) -> Dfa {
        let mut d = self.clone();
        d.init = self.step(self.init, x);
        d.minimize()
    }
    /// canonical DFA of the language accepted from state q
    pub fn from_state(&self, q: usize) -> Dfa {
        let mut d = self.clone();
        d.init = q;
        d.minimize()
    }
    /// for every state: can an accepting state be reached from it? (backward fixpoint, no minimisation)
    pub fn live_states(&self) -> Vec<bool> {
        let n = self.n();
        let mut live = self.acc.clone();
        loop {
            let mut changed = false;
            for q in 0..n {
                if !live[q] && (0..self.k).any(|x| live[self.step(q, x)]) {
                    live[q] = true;
                    changed = true;
                }
            }
            if !changed {
                return live;
            }
        }
    }
    /// a shortest accepted word, if any (BFS)
    pub fn shortest_word(&self) -> Option<Vec<usize>> {
        let mut prev: Vec<Option<(usize, usize)>> = vec![None; self.n()];
        let mut seen = vec![false; self.n()];
        let mut order = vec![self.init];
        seen[self.init] = true;
        let mut i = 0;
        while i < order.len() {
            let q = order[i];
            if self.acc[q] {
                let mut w = vec![];
                let mut c = q;
                while let Some((p, x)) = prev[c] {
                    w.push(x);
                    c = p;
                }
                w.reverse();
                return Some(w);
            }
            for x in 0..self.k {
                let t = self.step(q, x);
                if !seen[t] {
                    seen[t] = true;
                    prev[t] = Some((q, x));
                    order.push(t);
                }
            }
            i += 1;
        }
        None
    }
    pub fn to_json(&self) -> serde_json::Value {
        serde_json::json!({"k": self.k, "init": self.init, "acc": self.acc, "delta": self.delta})
    }
}
