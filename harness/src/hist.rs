//! C07 (hash-consing and history independence), C10 (regex replace), C16 (included_in soundness).

use crate::infra::*;
use crate::pool::*;
use crate::prog::*;
use crate::refdfa::Dfa;
use crate::regex::{as_re, product_auto, product_terms, ptr, show_word, sword};
use crate::universe::{Universe, A};
use aws_smt_strings::regular_expressions::{ReManager, RegLan};
use aws_smt_strings::smt_regular_expressions as wr;
use aws_smt_strings::smt_strings::SmtString;
use serde_json::{json, Value};
use std::collections::HashMap;
use std::sync::Arc;

fn r(l: u8, h: u8) -> Arc<P> {
    Arc::new(P::Rng(l, h))
}
fn a2(p: P) -> Arc<P> {
    Arc::new(p)
}

// =============================================================================================
// C07

/// probe programs: operands collide (same sub-terms and their complements in several probes, operands in both
/// orders, probes that are sub-terms of other probes) and the manager's predefined terms (ids 0..5) are involved
pub fn c07_probes() -> Vec<P> {
    let a = r(1, 1);
    let b = r(2, 2);
    let ab = r(1, 2);
    let sig = r(0, 5);
    let none = a2(P::None);
    let eps = a2(P::Eps);
    let all = a2(P::All);
    let sigplus = a2(P::SigPlus);
    let allchar = a2(P::AllChar);
    let ca = a2(P::Comp(a.clone()));
    let cb = a2(P::Comp(b.clone()));
    let sa = a2(P::Star(a.clone()));
    let csa = a2(P::Comp(sa.clone()));
    let cat = a2(P::Concat(a.clone(), b.clone()));
    let ccat = a2(P::Comp(cat.clone()));
    let ba = a2(P::Concat(b.clone(), a.clone()));
    vec![
        P::Union(a.clone(), ca.clone()),
        P::Inter(a.clone(), ca.clone()),
        P::Union(sa.clone(), csa.clone()),
        P::Inter(cat.clone(), ccat.clone()),
        P::Union(cat.clone(), b.clone()),
        P::Union(b.clone(), cat.clone()),
        P::Inter(ab.clone(), ca.clone()),
        P::Union(eps.clone(), cat.clone()),
        P::Inter(eps.clone(), sa.clone()),
        P::Inter(all.clone(), cat.clone()),
        P::Union(none.clone(), sa.clone()),
        P::Diff(sig.clone(), a.clone()),
        P::Concat(sa.clone(), all.clone()),
        P::Star(cat.clone()),
        (*ccat).clone(),
        (*csa).clone(),
        // predefined terms next to freshly allocated ones
        P::Inter(sigplus.clone(), a.clone()),
        P::Union(sigplus.clone(), a.clone()),
        P::Union(a.clone(), sigplus.clone()),
        P::Inter(ba.clone(), cb.clone()),
        P::Diff(ab.clone(), cb.clone()),
        P::Diff(ab.clone(), ca.clone()),
        P::Union(allchar.clone(), b.clone()),
        P::Inter(allchar.clone(), cb.clone()),
        P::Union(eps.clone(), a.clone()),
        P::Inter(a2(P::Comp(eps.clone())), sa.clone()),
        P::Comp(a2(P::Comp(cat.clone()))),
        P::Diff(all.clone(), a2(P::Comp(b.clone()))),
        (*a).clone(),
        (*b).clone(),
        // n-ary forms with the predefined odd-id terms (sigma_plus, full) as operands
        P::DiffL(a2(P::Union(sa.clone(), cat.clone())), vec![cat.clone(), sigplus.clone()]),
        P::DiffL(sa.clone(), vec![sigplus.clone()]),
        P::DiffL(cat.clone(), vec![all.clone()]),
        P::UnionL(vec![sigplus.clone(), b.clone(), a.clone()]),
        P::InterL(vec![sigplus.clone(), a.clone(), ca.clone()]),
        P::Inter(a2(P::Concat(a.clone(), sigplus.clone())), a2(P::Concat(a.clone(), a.clone()))),
        // constructions that return one of the predefined terms (the very first request a manager sees may be one)
        P::Plus(sig.clone()),
        P::Star(sig.clone()),
        P::Concat(allchar.clone(), all.clone()),
        P::Comp(a2(P::Plus(sig.clone()))),
        P::Loop(sig.clone(), 1, 1),
        // complements whose body's derivative is again a complement (odd-id terms reached through derivatives)
        P::Comp(a2(P::Concat(a.clone(), cb.clone()))),
        P::Comp(a2(P::Concat(ca.clone(), b.clone()))),
        P::Comp(a2(P::Union(ca.clone(), cat.clone()))),
        P::Inter(a2(P::Comp(a2(P::Concat(a.clone(), cb.clone())))), sa.clone()),
    ]
}

/// second probe set, over universe 4: the characters 0x42 and 0x142 differ by 256 (tables indexed by a truncated code);
/// built through char, char_set, str and range so that the entry points meet in one manager
pub fn c07_probes_u4() -> Vec<P> {
    let (b, l) = (0x42u32, 0x142u32);
    let cb = a2(P::Ch(b));
    let cl = a2(P::Ch(l));
    let rb = r(1, 1);
    let rl = r(3, 3);
    vec![
        (*cb).clone(),
        (*cl).clone(),
        (*rb).clone(),
        (*rl).clone(),
        P::Cs(b, b),
        P::Cs(l, l),
        P::Str(vec![b, l]),
        P::Str(vec![l, b]),
        P::Str(vec![l]),
        P::Concat(cb.clone(), cl.clone()),
        P::Concat(cl.clone(), cb.clone()),
        P::Union(cb.clone(), cl.clone()),
        P::Union(rl.clone(), cb.clone()),
        P::Inter(r(1, 3), a2(P::Comp(cb.clone()))),
        P::Inter(r(1, 3), a2(P::Comp(cl.clone()))),
        P::Star(cl.clone()),
        P::Comp(cl.clone()),
        P::Diff(a2(P::Star(r(0, 4))), a2(P::Concat(a2(P::All), a2(P::Concat(cl.clone(), a2(P::All)))))),
    ]
}

#[derive(Clone, Copy, Debug, PartialEq)]
enum Ev {
    Build(usize),
    Explore(usize),
    Derive(usize, u32),
}

fn ev_json(e: &Ev) -> Value {
    match e {
        Ev::Build(p) => json!(["build", p]),
        Ev::Explore(p) => json!(["explore", p]),
        Ev::Derive(p, c) => json!(["derive", p, c]),
    }
}
fn ev_from(v: &Value) -> Ev {
    let p = v[1].as_u64().unwrap_or(0) as usize;
    match v[0].as_str().unwrap_or("") {
        "build" => Ev::Build(p),
        "explore" => Ev::Explore(p),
        _ => Ev::Derive(p, v[2].as_u64().unwrap_or(0) as u32),
    }
}

fn run_event(u: &Universe, probes: &[P], re: &mut ReManager, e: &Ev) -> (usize, RegLan) {
    match *e {
        Ev::Build(p) => (p, build_mgr(u, re, &probes[p])),
        Ev::Explore(p) => {
            let t = build_mgr(u, re, &probes[p]);
            let _ = re.compile(t);
            let _ = re.is_empty_re(t);
            (p, t)
        }
        Ev::Derive(p, c) => {
            let t = build_mgr(u, re, &probes[p]);
            let d = re.char_derivative(t, c);
            let _ = re.char_derivative(d, c);
            (p, t)
        }
    }
}

/// one history followed by one probe, on a fresh manager
fn c07_case(u: &Universe, probes: &[P], refs: &[Arc<Dfa>], hist: &[Ev], probe: usize, rep: &mut Report) -> Option<String> {
    publish_case(|| json!({"history": hist.iter().map(ev_json).collect::<Vec<_>>(), "probe": probe}));
    let r = guarded(|| {
        let mut local = Report::new();
        let mut re = ReManager::new();
        let mut built: Vec<(usize, RegLan)> = vec![];
        for e in hist {
            built.push(run_event(u, probes, &mut re, e));
        }
        let t = build_mgr(u, &mut re, &probes[probe]);
        // the same construction gives the very same term, whatever happened in between
        for (p, t0) in &built {
            if *p == probe && (!std::ptr::eq(*t0, t) || *t0 != t) {
                return (Some(format!("building {} again returned a different term: first {} then {}", probes[probe].show(), t0, t)), local);
            }
        }
        let t2 = build_mgr(u, &mut re, &probes[probe]);
        if !std::ptr::eq(t, t2) || t != t2 {
            return (Some(format!("two consecutive constructions of {} returned different terms", probes[probe].show())), local);
        }
        // == only for the same object: over the roots of the history, the probe, its complement, every derivative of
        // the probe and the complements of those (terms reached by different routes)
        let mut terms: Vec<RegLan> = built.iter().map(|x| x.1).collect();
        terms.push(t);
        let ds: Vec<usize> = re.iter_derivatives(t).map(ptr).collect();
        local.add("derivative_terms_compared", ds.len() as u64);
        for &d in ds.iter().take(24) {
            let d = as_re(d);
            let cd = re.complement(d);
            if !std::ptr::eq(re.complement(cd), d) || std::ptr::eq(cd, d) || cd == d {
                return (Some(format!("complement is not an involution without fixed point on the derivative {} of {}", d, t)), local);
            }
            terms.push(d);
            terms.push(cd);
        }
        for x in &terms {
            for y in &terms {
                if (*x == *y) != std::ptr::eq(*x, *y) {
                    return (Some(format!("terms {} and {}: == is {} but pointer identity is {}", x, y, *x == *y, std::ptr::eq(*x, *y))), local);
                }
            }
        }
        // hash-consing of every sub-term: each operand program of the probe, re-issued twice after the history
        for sp in probes[probe].subprograms() {
            let s1 = build_mgr(u, &mut re, &sp);
            let s2 = build_mgr(u, &mut re, &sp);
            if !std::ptr::eq(s1, s2) || s1 != s2 {
                return (Some(format!("two consecutive constructions of the operand {} returned different terms", sp.show())), local);
            }
            let cs = re.complement(s1);
            if !std::ptr::eq(re.complement(cs), s1) || std::ptr::eq(cs, s1) {
                return (Some(format!("complement is not an involution without fixed point on the operand term {}", s1)), local);
            }
        }
        // and the probe itself is still the same term after all of that
        let t3 = build_mgr(u, &mut re, &probes[probe]);
        if !std::ptr::eq(t, t3) {
            return (Some(format!("building {} once more (after its operands and derivatives) returned a different term", probes[probe].show())), local);
        }
        // complement is an involution without fixed points
        let c = re.complement(t);
        let cc = re.complement(c);
        if !std::ptr::eq(cc, t) || cc != t {
            return (Some(format!("complement(complement({})) = {} is not the term itself", t, cc)), local);
        }
        if std::ptr::eq(c, t) || c == t {
            return (Some(format!("complement({}) is the term itself", t)), local);
        }
        // the language does not depend on the history: derivative graph and compiled automaton against the
        // history-free reference
        let rf = &refs[probe];
        let pr = product_terms(u, &mut re, t, rf, rf.init);
        if pr.capped {
            local.inc("caps_hit");
        }
        local.add("states", pr.nodes.len() as u64);
        local.add("transitions", pr.transitions);
        local.add("impl_traces", pr.transitions);
        if let Some(b) = pr.bad {
            return (Some(format!("after this history the term built for {} is {}, whose language differs from the construction's on the word {}", probes[probe].show(), t, show_word(&pr.word(b)))), local);
        }
        let a = re.compile(t);
        let pa = product_auto(u, &a, a.initial_state().id(), rf, rf.init);
        local.add("states", pa.nodes.len() as u64);
        local.add("transitions", pa.transitions);
        local.add("impl_traces", pa.transitions);
        if let Some(b) = pa.bad {
            return (Some(format!("after this history compile({}) differs from the construction's language on the word {}", t, show_word(&pa.word(b)))), local);
        }
        // and the complement denotes the complement
        let rc = rf.complement().minimize();
        let pc = product_terms(u, &mut re, c, &rc, rc.init);
        local.add("states", pc.nodes.len() as u64);
        local.add("transitions", pc.transitions);
        local.add("impl_traces", pc.transitions);
        if let Some(b) = pc.bad {
            return (Some(format!("complement({}) = {} does not denote the complement (word {})", t, c, show_word(&pc.word(b)))), local);
        }
        (None, local)
    });
    unpublish_case();
    match r {
        Ok((m, local)) => {
            rep.merge(local);
            m
        }
        Err(e) => Some(format!("history then {}: {}", probes[probe].show(), e)),
    }
}

/// the same through the SMT-LIB-named wrappers: the thread-local manager of a fresh thread
fn c07_wrap_case(u: &Universe, probes: &[P], refs: &[Arc<Dfa>], hist: &[usize], probe: usize, words: &[Vec<u32>]) -> Option<String> {
    let u2 = u.clone();
    let probes2: Vec<P> = probes.to_vec();
    let hist2 = hist.to_vec();
    let rf = refs[probe].clone();
    let words2: Vec<Vec<u32>> = words.to_vec();
    let h = std::thread::Builder::new().stack_size(64 << 20).spawn(move || {
        guarded(|| {
            let mut first: Option<RegLan> = None;
            for &p in &hist2 {
                let t = build_wrap(&u2, &probes2[p]);
                if p == probe && first.is_none() {
                    first = Some(t);
                }
                // populate the derivative cache of the thread-local manager
                let _ = wr::str_in_re(&sword(&[A, A + 1]), t);
            }
            let t = build_wrap(&u2, &probes2[probe]);
            if let Some(t0) = first {
                if !std::ptr::eq(t0, t) {
                    return Some(format!("wrappers: building {} again returned a different term", probes2[probe].show()));
                }
            }
            let c = wr::re_comp(t);
            if !std::ptr::eq(wr::re_comp(c), t) || std::ptr::eq(c, t) {
                return Some(format!("wrappers: re_comp is not an involution without fixed point on {}", t));
            }
            if t.nullable != rf.acc[rf.init] {
                return Some(format!("wrappers: {} built as {} has nullable = {}", probes2[probe].show(), t, t.nullable));
            }
            for w in &words2 {
                let exp = rf.accepts(&u2.word_to_regions(w));
                if wr::str_in_re(&sword(w), t) != exp {
                    return Some(format!("wrappers: after this history {} is built as {} and str_in_re({}) = {}", probes2[probe].show(), t, show_word(w), !exp));
                }
                if wr::str_in_re(&sword(w), c) == exp {
                    return Some(format!("wrappers: re_comp({}) contains {} iff the term does", t, show_word(w)));
                }
            }
            None
        })
    });
    match h.map(|j| j.join()) {
        Ok(Ok(Ok(m))) => m,
        Ok(Ok(Err(e))) => Some(format!("wrappers: {}", e)),
        _ => Some("wrappers: the thread died".into()),
    }
}

pub struct C07Engine;
/// batches: a worker process leaks every term of every manager it creates (the crate never frees terms), so the
/// thorough tier, with 50 times more runs, is cut into more (shorter-lived) worker processes
fn c07_nb(tier: Tier) -> usize {
    if tier == Tier::Thorough {
        1536
    } else {
        96
    }
}

fn c07_events(np: usize, with_derive: bool) -> Vec<Ev> {
    let mut v = vec![];
    for p in 0..np {
        v.push(Ev::Build(p));
    }
    for p in 0..np {
        v.push(Ev::Explore(p));
    }
    if with_derive {
        for p in 0..np {
            v.push(Ev::Derive(p, A));
        }
    }
    v
}

/// enumerate histories of a tier as (index, history); all batches enumerate the same sequence
fn c07_histories(tier: Tier, np: usize, f: &mut dyn FnMut(usize, &[Ev])) {
    let mut idx = 0usize;
    let be = c07_events(np, false);
    let all = c07_events(np, true);
    let builds: Vec<Ev> = (0..np).map(Ev::Build).collect();
    f(idx, &[]);
    idx += 1;
    let _ = &be;
    let (evs, depth): (&Vec<Ev>, usize) = if tier == Tier::Thorough { (&all, 3) } else { (&all, 2) };
    // all sequences up to `depth` over the event menu
    let mut cur: Vec<Vec<Ev>> = vec![vec![]];
    for _ in 0..depth {
        let mut nx = vec![];
        for h in &cur {
            for e in evs {
                let mut t = h.clone();
                t.push(*e);
                f(idx, &t);
                idx += 1;
                nx.push(t);
            }
        }
        cur = nx;
    }
    drop(cur);
    // long histories: every probe explored and differentiated in one manager, in every rotation of the probe order
    // and in the reverse orders (identity and language after many unrelated terms and a full derivative cache)
    for rot in 0..np {
        for rev in [false, true] {
            let order: Vec<usize> = (0..np).map(|i| if rev { (rot + np - i) % np } else { (rot + i) % np }).collect();
            let mut h: Vec<Ev> = vec![];
            for &p in &order {
                h.push(Ev::Explore(p));
                if p % 2 == rot % 2 {
                    h.push(Ev::Derive(p, A));
                }
            }
            f(idx, &h);
            idx += 1;
        }
    }
    // one level deeper over Build events only
    let extra = depth + 1;
    let mut cur: Vec<Vec<Ev>> = vec![vec![]];
    for d in 0..extra {
        let mut nx = vec![];
        for h in &cur {
            for e in &builds {
                let mut t = h.clone();
                t.push(*e);
                if d + 1 == extra {
                    f(idx, &t);
                    idx += 1;
                } else {
                    nx.push(t);
                }
            }
        }
        cur = nx;
    }
}

impl Engine for C07Engine {
    fn name(&self) -> &'static str {
        "c07"
    }
    fn meta(&self, ctx: &Ctx) -> Meta {
        let np = c07_probes().len();
        let mut n = 0usize;
        c07_histories(ctx.tier, np, &mut |_, _| n += 1);
        Meta {
            level: "model_checking",
            rule: format!("states = histories of a manager: every sequence of build / explore (build, compile, is_empty_re) / derive events over {} probe programs up to the stated depth ({} histories), each replayed on a FRESH manager and followed by each of the {} probes; invariant evaluated after every history: re-issuing a construction (the probe and each of its operand programs) returns the identical term (== and pointer), == holds only for identical objects among the roots, the probe, its derivatives and their complements, complement is an involution without fixed point on all of them, and the language of the result (product BFS of its derivative graph and of its compiled automaton with the history-free reference DFA) is the construction's; a second probe set over two characters that differ by 256 (built through char, char_set, str and range) under all histories of length <= 2; the thread-local manager of the wrappers is driven through histories in fresh OS threads; non-trivial = (history, probe) runs with a non-empty history", np, n, np),
            assumptions: vec!["reference DFA of each probe is computed without any manager".into(), "probes share sub-terms, complements and the manager's predefined terms so that operand ids collide".into()],
            exhaustive: true,
            space: format!("{}: all event sequences of length <= {} over {} events, plus all sequences of {} build events, plus 2 x {} long histories (every probe explored, half of them differentiated, in every rotation of the probe order and its reverse)", ctx.tier.name(), if ctx.tier == Tier::Thorough { 3 } else { 2 }, 3 * np, if ctx.tier == Tier::Thorough { 4 } else { 3 }, np),
        }
    }
    fn num_batches(&self, ctx: &Ctx) -> usize {
        c07_nb(ctx.tier)
    }
    fn max_group(&self, ctx: &Ctx, _batch: usize) -> usize {
        // thorough: one batch per worker process (memory, see c07_nb)
        if ctx.tier == Tier::Thorough {
            1
        } else {
            usize::MAX
        }
    }
    fn run_batch(&self, ctx: &Ctx, batch: usize, rep: &mut Report) {
        let nb7 = c07_nb(ctx.tier);
        let u = Universe::new(0);
        let probes = c07_probes();
        let mut cache = RefCache::new(u.clone());
        let refs: Vec<Arc<Dfa>> = probes.iter().map(|p| cache.dfa(p)).collect();
        let np = probes.len();
        c07_histories(ctx.tier, np, &mut |i, h| {
            if i % nb7 != batch {
                return;
            }
            beat();
            for probe in 0..np {
                rep.inc("evaluations");
                rep.inc("histories_x_probes");
                if !h.is_empty() {
                    rep.inc("nontrivial");
                }
                if let Some(m) = c07_case(&u, &probes, &refs, h, probe, rep) {
                    let hs: Vec<Value> = h.iter().map(ev_json).collect();
                    let desc: Vec<String> = h.iter().map(|e| match e { Ev::Build(p) => format!("build {}", probes[*p].show()), Ev::Explore(p) => format!("explore {}", probes[*p].show()), Ev::Derive(p, c) => format!("derive {} by {}", probes[*p].show(), c) }).collect();
                    rep.violation("C07", "c07", json!({"history": hs, "probe": probe}), format!("history [{}] then {}: {}", desc.join("; "), probes[probe].show(), m));
                }
            }
            if rep.samples.len() < 3 && h.len() == 2 {
                let hs: Vec<Value> = h.iter().map(ev_json).collect();
                let sj = json!({"history": hs, "then": "every probe", "probe_0": probes[0].show()});
                rep.sample(|| sj);
            }
        });
        // second probe set (universe 4): all histories of length <= 2 over all events, each followed by each probe
        {
            let u4 = Universe::new(4);
            let probes4 = c07_probes_u4();
            let mut cache4 = RefCache::new(u4.clone());
            let refs4: Vec<Arc<Dfa>> = probes4.iter().map(|p| cache4.dfa(p)).collect();
            let np4 = probes4.len();
            let evs: Vec<Ev> = (0..np4).map(Ev::Build).chain((0..np4).map(Ev::Explore)).chain((0..np4).map(|p| Ev::Derive(p, 0x142))).collect();
            let mut hs: Vec<Vec<Ev>> = vec![vec![]];
            for e in &evs {
                hs.push(vec![*e]);
            }
            for e in &evs {
                for f in &evs {
                    hs.push(vec![*e, *f]);
                }
            }
            for (i, h) in hs.iter().enumerate() {
                if i % nb7 != batch {
                    continue;
                }
                beat();
                for probe in 0..np4 {
                    rep.inc("evaluations");
                    rep.inc("u4_histories_x_probes");
                    if let Some(m) = c07_case(&u4, &probes4, &refs4, h, probe, rep) {
                        let hj: Vec<Value> = h.iter().map(ev_json).collect();
                        rep.violation("C07", "c07", json!({"set": "u4", "history": hj, "probe": probe}), format!("(probe set over 0x42/0x142) history {:?} then {}: {}", h, probes4[probe].show(), m));
                    }
                }
            }
        }
        // wrappers: histories of build events (length <= 2) on the thread-local manager of a fresh thread
        let mut words: Vec<Vec<u32>> = vec![vec![]];
        for &c in &u.reps {
            words.push(vec![c]);
            for &d in &u.reps {
                words.push(vec![c, d]);
            }
        }
        let mut k = 0usize;
        let mut hs: Vec<Vec<usize>> = vec![vec![]];
        for p in 0..np {
            hs.push(vec![p]);
        }
        let stride = if ctx.tier == Tier::Thorough { 1 } else { 3 };
        for p in 0..np {
            for q in (0..np).step_by(stride) {
                hs.push(vec![p, q]);
            }
        }
        for h in &hs {
            for probe in 0..np {
                k += 1;
                if k % nb7 != batch {
                    continue;
                }
                beat();
                rep.inc("evaluations");
                rep.inc("wrapper_histories_x_probes");
                if let Some(m) = c07_wrap_case(&u, &probes, &refs, h, probe, &words) {
                    rep.violation("C07", "c07", json!({"wrap_history": h, "probe": probe}), format!("wrapper history {:?} then {}: {}", h.iter().map(|&p| probes[p].show()).collect::<Vec<_>>(), probes[probe].show(), m));
                }
            }
        }
    }
    fn hang_is_violation(&self, _p: &str) -> bool {
        true
    }
    fn replay(&self, _ctx: &Ctx, c: &Value, rep: &mut Report) {
        if c["set"] == "u4" {
            let u = Universe::new(4);
            let probes = c07_probes_u4();
            let mut cache = RefCache::new(u.clone());
            let refs: Vec<Arc<Dfa>> = probes.iter().map(|p| cache.dfa(p)).collect();
            let probe = c["probe"].as_u64().unwrap_or(0) as usize;
            let h: Vec<Ev> = c["history"].as_array().map(|a| a.iter().map(ev_from).collect()).unwrap_or_default();
            rep.inc("evaluations");
            if probe < probes.len() && h.iter().all(|e| match e { Ev::Build(p) | Ev::Explore(p) | Ev::Derive(p, _) => *p < probes.len() }) {
                if let Some(m) = c07_case(&u, &probes, &refs, &h, probe, rep) {
                    rep.violation("C07", "c07", c.clone(), m);
                }
            }
            return;
        }
        let u = Universe::new(0);
        let probes = c07_probes();
        let mut cache = RefCache::new(u.clone());
        let refs: Vec<Arc<Dfa>> = probes.iter().map(|p| cache.dfa(p)).collect();
        let probe = c["probe"].as_u64().unwrap_or(0) as usize;
        rep.inc("evaluations");
        if let Some(a) = c["wrap_history"].as_array() {
            let h: Vec<usize> = a.iter().map(|x| x.as_u64().unwrap_or(0) as usize).collect();
            let mut words: Vec<Vec<u32>> = vec![vec![]];
            for &x in &u.reps {
                words.push(vec![x]);
                for &d in &u.reps {
                    words.push(vec![x, d]);
                }
            }
            if let Some(m) = c07_wrap_case(&u, &probes, &refs, &h, probe, &words) {
                rep.violation("C07", "c07", c.clone(), m);
            }
            return;
        }
        let h: Vec<Ev> = c["history"].as_array().map(|a| a.iter().map(ev_from).collect()).unwrap_or_default();
        if let Some(m) = c07_case(&u, &probes, &refs, &h, probe, rep) {
            rep.violation("C07", "c07", c.clone(), m);
        }
    }
}

// =============================================================================================
// C10

fn c10_regexes(tier: Tier) -> Vec<P> {
    let fam = core_quick();
    let n1 = fam.l1.len();
    let mut v: Vec<P> = (0..n1).map(|i| fam.get(i)).collect();
    // all unary level-2 terms and a slice of the binary ones
    let nu = n1 * fam.uops.len();
    v.extend((n1..n1 + nu).map(|i| fam.get(i)));
    let lim = if tier == Tier::Thorough { 120 } else { 60 };
    for a in fam.l1.iter().take(lim) {
        for b in fam.l1.iter().take(lim) {
            for op in BOPS {
                v.push(apply_b(op, a, b));
            }
        }
    }
    // literal strings and classic search patterns
    let (a, b, c) = (A, A + 1, A + 2);
    let mut words: Vec<Vec<u32>> = crate::strs::all_strings(&[a, b, c], 3);
    words.extend([vec![a, b, a, b], vec![a, a, a, b], vec![a, a, b, a], vec![a, b, c, a, b]]);
    let lit: Vec<Arc<P>> = words.iter().map(|w| a2(P::Str(w.clone()))).collect();
    for l in &lit {
        v.push((**l).clone());
        v.push(P::Star(l.clone()));
        v.push(P::Plus(l.clone()));
        v.push(P::Opt(l.clone()));
        v.push(P::Comp(l.clone()));
        v.push(P::Loop(l.clone(), 1, 2));
        for m in &lit {
            v.push(P::Union(l.clone(), m.clone()));
            v.push(P::Concat(l.clone(), a2(P::Star(m.clone()))));
            v.push(P::Inter(a2(P::Comp(l.clone())), a2(P::Concat(a2(P::All), m.clone()))));
        }
    }
    // a starred (or plussed) block first, then a literal or an alternative: a failed attempt that consumed whole blocks
    // must not make the search skip the start positions inside those blocks
    let short: Vec<Arc<P>> = words.iter().filter(|w| !w.is_empty() && w.len() <= 2).map(|w| a2(P::Str(w.clone()))).collect();
    for l in &lit {
        for m in &lit {
            v.push(P::Concat(a2(P::Star(l.clone())), m.clone()));
        }
    }
    for l in short.iter().filter(|l| matches!(&***l, P::Str(w) if w.len() == 2)) {
        for (i, m1) in short.iter().enumerate() {
            v.push(P::Concat(a2(P::Plus(l.clone())), m1.clone()));
            for m2 in short.iter().skip(i + 1) {
                v.push(P::Concat(a2(P::Star(l.clone())), a2(P::Union(m1.clone(), m2.clone()))));
            }
        }
    }
    // several spellings of one literal (str.to_re of the word, concatenation of its characters, of two halves, with
    // runs written as powers): intersections of two spellings denote the word, of spellings of two different words
    // nothing; unions and differences of them likewise
    {
        let ws: Vec<Vec<u32>> = crate::strs::all_strings(&[a, b], 4).into_iter().filter(|w| w.len() >= 2).collect();
        let spell = |w: &Vec<u32>| -> Vec<Arc<P>> {
            let mut out: Vec<Arc<P>> = vec![a2(P::Str(w.clone()))];
            out.push(a2(P::ConcatL(w.iter().map(|&x| a2(P::Ch(x))).collect())));
            for cut in 1..w.len() {
                out.push(a2(P::Concat(a2(P::Str(w[..cut].to_vec())), a2(P::Str(w[cut..].to_vec())))));
            }
            // runs as powers
            let mut runs: Vec<(u32, u32)> = vec![];
            for &x in w {
                match runs.last_mut() {
                    Some(r) if r.0 == x => r.1 += 1,
                    _ => runs.push((x, 1)),
                }
            }
            if runs.iter().any(|r| r.1 > 1) {
                out.push(a2(P::ConcatL(runs.iter().map(|&(x, k)| a2(P::Pow(a2(P::Ch(x)), k))).collect())));
                out.push(a2(P::ConcatL(runs.iter().map(|&(x, k)| a2(P::Loop(a2(P::Ch(x)), k, k))).collect())));
            }
            out
        };
        for (wi, w) in ws.iter().enumerate() {
            let sp = spell(w);
            for i in 0..sp.len() {
                for j in 0..sp.len() {
                    if i != j {
                        v.push(P::Inter(sp[i].clone(), sp[j].clone()));
                    }
                }
                // a spelling of this word against a spelling of the next word of the same length (empty intersection)
                let w2 = &ws[(wi + 1) % ws.len()];
                if w2.len() == w.len() && w2 != w {
                    let sp2 = spell(w2);
                    v.push(P::Inter(sp[i].clone(), sp2[(i + 1) % sp2.len()].clone()));
                    v.push(P::Diff(sp[i].clone(), sp2[(i + 1) % sp2.len()].clone()));
                }
            }
        }
    }
    // two rigid blocks between / around sigma* (the union of the suffixes arises in the derivatives): the search must not
    // lose the branch in which the second block starts inside the first one's match
    for b1 in short.iter() {
        for b2 in short.iter() {
            let all = a2(P::All);
            v.push(P::ConcatL(vec![all.clone(), b1.clone(), all.clone(), b2.clone()]));
            v.push(P::ConcatL(vec![b1.clone(), all.clone(), b2.clone(), all.clone()]));
            v.push(P::ConcatL(vec![all.clone(), b1.clone(), all.clone(), b2.clone(), all.clone()]));
        }
    }
    // sigma* in front of an alternative of literals whose occurrences nest (the shortest match of sigma*.R ends at the
    // earliest-ending occurrence of R, not at the end of the leftmost one)
    for (i, l) in lit.iter().enumerate() {
        v.push(P::Concat(a2(P::All), l.clone()));
        for m in lit.iter().skip(i + 1) {
            v.push(P::Concat(a2(P::All), a2(P::Union(l.clone(), m.clone()))));
        }
    }
    // anchored nested loops: x (inner){c,d} y with inner a power or a loop (a flattened loop with holes matches too much)
    for inner in [a2(P::Pow(a2(P::Ch(a)), 2)), a2(P::Pow(a2(P::Ch(a)), 3)), a2(P::Loop(a2(P::Ch(a)), 2, 3)), a2(P::Loop(a2(P::Ch(a)), 4, 5)), a2(P::Pow(a2(P::Str(vec![a, b])), 2))] {
        for (c, d) in [(2u32, 3u32), (1, 2), (2, 2), (3, 4), (0, 2)] {
            let lp = a2(P::Loop(inner.clone(), c, d));
            v.push(P::Concat(a2(P::Ch(b)), a2(P::Concat(lp.clone(), a2(P::Ch(b))))));
            v.push(P::Concat(a2(P::Ch(c_of(a))), a2(P::Concat(a2(P::LoopInf(inner.clone(), c)), a2(P::Ch(b))))));
        }
    }
    // unions of complements whose bodies are in (detectable) inclusion, inside a frame
    for l in lit.iter().take(14) {
        for m in lit.iter().take(14) {
            let cu = a2(P::Union(a2(P::Comp(l.clone())), a2(P::Comp(a2(P::Concat(m.clone(), a2(P::All)))))));
            v.push((*cu).clone());
            v.push(P::Concat(a2(P::Ch(c)), a2(P::Concat(cu.clone(), a2(P::Ch(c))))));
        }
    }
    let ch = |x: u32| a2(P::Ch(x));
    let all = a2(P::All);
    for x in [a, b, c] {
        for y in [a, b, c] {
            // x .* y, (x .* y) | z, x .+ y
            let xy = a2(P::Concat(ch(x), a2(P::Concat(all.clone(), ch(y)))));
            v.push((*xy).clone());
            for z in [a, b, c] {
                v.push(P::Union(xy.clone(), ch(z)));
                v.push(P::Concat(a2(P::Star(ch(z))), xy.clone()));
            }
            v.push(P::Concat(ch(x), a2(P::Concat(a2(P::SigPlus), ch(y)))));
            // open-ended middles whose residual recurs at different positions
            v.push(P::Concat(ch(x), a2(P::Concat(a2(P::Star(a2(P::Pow(a2(P::AllChar), 2)))), ch(y)))));
            v.push(P::Concat(ch(x), a2(P::Concat(a2(P::Star(a2(P::Str(vec![a, b])))), ch(y)))));
            v.push(P::Concat(ch(x), a2(P::Concat(a2(P::Comp(a2(P::Concat(all.clone(), ch(z_of(x, y)))))), ch(y)))));
            v.push(P::Diff(xy.clone(), a2(P::Concat(all.clone(), a2(P::Concat(ch(z_of(x, y)), all.clone()))))));
        }
    }
    v
}
fn c_of(a: u32) -> u32 {
    a + 2
}
fn z_of(x: u32, y: u32) -> u32 {
    // a letter of {a,b,c} different from x (and from y if possible)
    *[A, A + 1, A + 2].iter().find(|&&z| z != x && z != y).unwrap_or(&(A + 2))
}

fn c10_subjects(tier: Tier) -> Vec<Vec<u32>> {
    crate::strs::all_strings(&[A, A + 1, A + 2], if tier == Tier::Thorough { 6 } else { 4 })
}

/// periodic subjects of length 15, 16, 17, 31, 32, 33, 64, 65 over the first letters of the universe
/// x a^k y for k = 0..=16 and (x, y) in {(b,b), (c,b)}; x (ab)^k y likewise: counting subjects for the loop regexes
fn c10_counting_subjects() -> Vec<Vec<u32>> {
    let mut v = vec![];
    for k in 0..=16usize {
        for (x, y) in [(A + 1, A + 1), (A + 2, A + 1)] {
            let mut s = vec![x];
            s.extend(std::iter::repeat(A).take(k));
            s.push(y);
            v.push(s);
            if k <= 8 {
                let mut s = vec![x];
                for _ in 0..k {
                    s.push(A);
                    s.push(A + 1);
                }
                s.push(y);
                v.push(s);
            }
        }
    }
    v
}

fn c10_long_subjects(u: &Universe) -> Vec<Vec<u32>> {
    let letters: Vec<u32> = if u.id == 4 { vec![0x42, 0x142, 0x41] } else { vec![A, A + 1, A + 2] };
    let units: Vec<Vec<u32>> = vec![vec![letters[0]], vec![letters[0], letters[1]], vec![letters[0], letters[1], letters[2]], vec![letters[0], letters[0], letters[1]]];
    let mut v = vec![];
    for len in [15usize, 16, 17, 31, 32, 33, 64, 65] {
        for un in &units {
            let mut s: Vec<u32> = un.iter().cycle().take(len).copied().collect();
            v.push(s.clone());
            // one odd character near the end
            let l = s.len();
            s[l - 2] = letters[2];
            v.push(s);
        }
    }
    v
}

/// second set: characters that differ by a multiple of 256 (universe 4): level 1 over its ranges
fn c10_regexes_u4() -> Vec<P> {
    let fam = LevelFamily::new("c10/u4", Universe::new(4), &[(1, 1), (3, 3), (1, 3), (2, 4), (0, 4), (0, 1)], uops_quick(), usize::MAX);
    let n1 = fam.l1.len();
    let mut v: Vec<P> = (0..n1).map(|i| fam.get(i)).collect();
    // concatenations and stars of level-1 terms built from the two interesting letters
    let b = r(1, 1);
    let l = r(3, 3);
    let hi = r(2, 4);
    for x in [b.clone(), l.clone(), hi.clone()] {
        for y in [b.clone(), l.clone(), hi.clone()] {
            v.push(P::Concat(a2(P::Plus(x.clone())), y.clone()));
            v.push(P::Concat(x.clone(), a2(P::Star(y.clone()))));
            v.push(P::Union(a2(P::Concat(x.clone(), y.clone())), y.clone()));
        }
    }
    v
}
fn c10_subjects_u4(tier: Tier) -> Vec<Vec<u32>> {
    crate::strs::all_strings(&[0x42, 0x142, 0x41, 0x242], if tier == Tier::Thorough { 5 } else { 4 })
}

/// the (universe, regexes, subjects) sets of a tier
fn c10_sets(tier: Tier) -> Vec<(Universe, Vec<P>, Vec<Vec<u32>>)> {
    vec![(Universe::new(0), c10_regexes(tier), c10_subjects(tier)), (Universe::new(4), c10_regexes_u4(), c10_subjects_u4(tier))]
}
const C10_REPL: [&[u32]; 3] = [&[], &[A + 2], &[A, A + 1]];

/// the SMT-LIB results for one (regex, subject, replacement), from the reference DFA
fn c10_expected(u: &Universe, rf: &Dfa, s: &[u32], t: &[u32]) -> (Vec<u32>, Vec<u32>) {
    let regs = u.word_to_regions(s);
    // acc[i][j] : s[i..j] in L
    let n = s.len();
    let find = |from: usize, allow_empty: bool| -> Option<(usize, usize)> {
        for i in from..=n {
            let mut q = rf.init;
            if allow_empty && rf.acc[q] {
                return Some((i, i));
            }
            for j in i..n {
                q = rf.step(q, regs[j]);
                if rf.acc[q] {
                    return Some((i, j + 1));
                }
            }
        }
        None
    };
    let e1 = match find(0, true) {
        None => s.to_vec(),
        Some((i, j)) => {
            let mut x = s[..i].to_vec();
            x.extend_from_slice(t);
            x.extend_from_slice(&s[j..]);
            x
        }
    };
    let mut e2 = vec![];
    let mut pos = 0;
    while let Some((i, j)) = find(pos, false) {
        e2.extend_from_slice(&s[pos..i]);
        e2.extend_from_slice(t);
        pos = j;
    }
    e2.extend_from_slice(&s[pos..]);
    (e1, e2)
}

fn c10_check(u: &Universe, p: &P, rf: &Dfa, tw: RegLan, s: &[u32], t: &[u32]) -> Option<String> {
    let (e1, e2) = c10_expected(u, rf, s, t);
    let (ms, mt) = (sword(s), sword(t));
    publish_case(|| json!({"universe": u.id, "prog": p.show(), "s": s, "t": t}));
    let r = guarded(|| (wr::str_replace_re(&ms, tw, &mt), wr::str_replace_re_all(&ms, tw, &mt)));
    unpublish_case();
    match r {
        Err(e) => Some(format!("str_replace_re(_all)({}, {}, {}) {}", show_word(s), p.show(), show_word(t), e)),
        Ok((g1, g2)) => {
            let (g1, g2): (Vec<u32>, Vec<u32>) = (g1.iter().copied().collect(), g2.iter().copied().collect());
            if g1 != e1 {
                Some(format!("str_replace_re({}, {}, {}) = {}, SMT-LIB (leftmost, shortest): {}", show_word(s), p.show(), show_word(t), show_word(&g1), show_word(&e1)))
            } else if g2 != e2 {
                Some(format!("str_replace_re_all({}, {}, {}) = {}, SMT-LIB (leftmost shortest non-empty matches): {}", show_word(s), p.show(), show_word(t), show_word(&g2), show_word(&e2)))
            } else {
                None
            }
        }
    }
}

pub struct C10Engine;
const C10_NB: usize = 128;

impl Engine for C10Engine {
    fn name(&self) -> &'static str {
        "c10"
    }
    fn meta(&self, ctx: &Ctx) -> Meta {
        Meta {
            level: "model_checking",
            rule: format!("{} regular expressions (level 1, all unary and a slice of binary level-2 programs, literal strings of length <= 4 under star/plus/opt/complement/union, x.*y patterns, open-ended middles, starred blocks followed by literals/alternatives, intersections of different spellings of one literal; a second set over characters that differ by multiples of 256) built with the SMT-LIB wrappers x all {} subject strings over {{a,b,c}} (resp. {{0x41,0x42,0x142,0x242}}) x 3 replacement strings, and every 16th regex on 64 periodic subjects of 15 to 65 characters; expected results computed from the reference DFA by scanning (start, end) in lexicographic order: first match with possibly empty body for str_replace_re, repeated first non-empty match for str_replace_re_all; states = (regex, subject) pairs, transitions = replace calls; non-trivial = cases in which replace_re_all changes the subject", c10_regexes(ctx.tier).len() + c10_regexes_u4().len(), c10_subjects(ctx.tier).len()),
            assumptions: vec!["SMT-LIB 2.6 str.replace_re / str.replace_re_all: shortest leftmost match, empty match allowed only for replace_re".into()],
            exhaustive: true,
            space: "see rule".into(),
        }
    }
    fn num_batches(&self, _ctx: &Ctx) -> usize {
        C10_NB
    }
    fn run_batch(&self, ctx: &Ctx, batch: usize, rep: &mut Report) {
        let mut k = 0usize;
        for (u, regs, subjects) in c10_sets(ctx.tier) {
            let mut cache = RefCache::new(u.clone());
            for p in regs.iter() {
                k += 1;
                if k % C10_NB != batch {
                    continue;
                }
                beat();
                let rf = cache.dfa(p);
                let tw = match guarded(|| build_wrap(&u, p)) {
                    Ok(t) => t,
                    Err(e) => {
                        rep.violation("C10", "c10", json!({"universe": u.id, "prog": p.show(), "s": [], "t": []}), format!("building {} through the wrappers {}", p.show(), e));
                        continue;
                    }
                };
                rep.inc("regexes");
                for s in &subjects {
                    rep.inc("states");
                    for t in C10_REPL {
                        rep.inc("evaluations");
                        rep.add("transitions", 2);
                        rep.add("impl_traces", 2);
                        let (_, e2) = c10_expected(&u, &rf, s, t);
                        if e2 != *s {
                            rep.inc("nontrivial");
                        }
                        if let Some(m) = c10_check(&u, p, &rf, tw, s, t) {
                            rep.violation("C10", "c10", json!({"universe": u.id, "prog": p.show(), "s": s, "t": t}), m);
                        }
                    }
                }
                // long subjects (block sizes of buffers and copy loops): periodic strings of 15..65 characters, for every
                // 16th regex of the set
                // regexes with a loop: counting subjects x a^k y
                if u.id == 0 && p.show().contains("loop") {
                    for s in c10_counting_subjects() {
                        rep.inc("states");
                        rep.inc("counting_subjects");
                        let t = C10_REPL[2];
                        rep.inc("evaluations");
                        rep.add("transitions", 2);
                        rep.add("impl_traces", 2);
                        if let Some(m) = c10_check(&u, p, &rf, tw, &s, t) {
                            rep.violation("C10", "c10", json!({"universe": u.id, "prog": p.show(), "s": s, "t": t}), m);
                        }
                    }
                }
                if k % 16 == 3 {
                    for s in c10_long_subjects(&u) {
                        rep.inc("states");
                        rep.inc("long_subjects");
                        for t in [C10_REPL[0], C10_REPL[2]] {
                            rep.inc("evaluations");
                            rep.add("transitions", 2);
                            rep.add("impl_traces", 2);
                            if let Some(m) = c10_check(&u, p, &rf, tw, &s, t) {
                                rep.violation("C10", "c10", json!({"universe": u.id, "prog": p.show(), "s": s, "t": t}), m);
                            }
                        }
                    }
                }
                if rep.samples.len() < 3 && k > 500 {
                    let s = &subjects[subjects.len() / 2];
                    let (e1, e2) = c10_expected(&u, &rf, s, C10_REPL[2]);
                    let sj = json!({"universe": u.id, "regex": p.show(), "subject": s, "replacement": C10_REPL[2], "replace_re": e1, "replace_re_all": e2});
                    rep.sample(|| sj);
                }
            }
        }
    }
    fn hang_is_violation(&self, _p: &str) -> bool {
        // "returns exactly ..." and "continues after it": a replace call that does not return is a violation
        true
    }
    fn replay(&self, _ctx: &Ctx, c: &Value, rep: &mut Report) {
        let u = Universe::new(c["universe"].as_u64().unwrap_or(0) as usize);
        let p = match P::parse(c["prog"].as_str().unwrap_or("")) {
            Ok(p) => p,
            Err(_) => return,
        };
        let arr = |v: &Value| -> Vec<u32> { v.as_array().map(|a| a.iter().map(|x| x.as_u64().unwrap_or(0) as u32).collect()).unwrap_or_default() };
        let mut cache = RefCache::new(u.clone());
        let rf = cache.dfa(&p);
        rep.inc("evaluations");
        match guarded(|| build_wrap(&u, &p)) {
            Ok(tw) => {
                if let Some(m) = c10_check(&u, &p, &rf, tw, &arr(&c["s"]), &arr(&c["t"])) {
                    rep.violation("C10", "c10", c.clone(), m);
                }
            }
            Err(e) => rep.violation("C10", "c10", c.clone(), e),
        }
    }
}

// =============================================================================================
// C16

struct C16Pool {
    u: Universe,
    progs: Vec<P>,
    /// canonical language id of every program
    lang: Vec<usize>,
    dfas: Vec<Arc<Dfa>>,
    /// programs that take part in the union checks
    short: Vec<usize>,
    extras: Vec<usize>,
    family: usize,
    tier: &'static str,
}

fn c16_pool(tier: Tier, family: usize) -> C16Pool {
    let u = Universe::new(0);
    let a = r(1, 1);
    let b = r(2, 2);
    let ab = r(1, 2);
    let sig = r(0, 5);
    let all = a2(P::All);
    let mut progs: Vec<P> = vec![];
    let mut short: Vec<usize> = vec![];
    let mut extras: Vec<usize> = vec![];
    match family {
        // (i) sequences over 12 elements + boolean combinations of the short ones
        0 => {
            let elems: Vec<Arc<P>> = vec![
                a.clone(),
                b.clone(),
                ab.clone(),
                sig.clone(),
                all.clone(),
                a2(P::Star(a.clone())),
                a2(P::Star(ab.clone())),
                a2(P::Plus(sig.clone())),
                a2(P::Opt(a.clone())),
                a2(P::Comp(a.clone())),
                a2(P::Union(a.clone(), a2(P::Concat(b.clone(), b.clone())))),
                a2(P::Pow(sig.clone(), 2)),
                a2(P::Loop(a.clone(), 1, 3)),
                a2(P::LoopInf(b.clone(), 2)),
            ];
            progs.push(P::Eps);
            progs.push(P::None);
            let maxlen = if tier == Tier::Thorough { 4 } else { 3 };
            let mut cur: Vec<Arc<P>> = elems.clone();
            progs.extend(cur.iter().map(|p| (**p).clone()));
            for _ in 2..=maxlen {
                let mut nxt = vec![];
                for x in &elems {
                    for y in &cur {
                        nxt.push(a2(P::Concat(x.clone(), y.clone())));
                    }
                }
                progs.extend(nxt.iter().map(|p| (**p).clone()));
                cur = nxt;
            }
            let nshort = 2 + elems.len() + 40;
            short = (0..nshort.min(progs.len())).collect();
            let sh: Vec<Arc<P>> = short.iter().map(|&i| a2(progs[i].clone())).collect();
            for x in &sh {
                extras.push(progs.len());
                progs.push(P::Comp(x.clone()));
                for y in &sh {
                    extras.push(progs.len());
                    progs.push(P::Union(x.clone(), y.clone()));
                    extras.push(progs.len());
                    progs.push(P::Inter(x.clone(), y.clone()));
                }
            }
            // complements of unions / intersections (the contrapositive rule sends these into the other arms)
            for (i, x) in sh.iter().enumerate() {
                for y in sh.iter().skip(i + 1) {
                    progs.push(P::Comp(a2(P::Union(x.clone(), y.clone()))));
                    progs.push(P::Comp(a2(P::Inter(x.clone(), y.clone()))));
                }
            }
        }
        // (ii) the level-1 pool
        1 => {
            let fam = core_quick();
            progs = fam.l1.iter().map(|p| (**p).clone()).collect();
            short = (0..progs.len()).step_by(3).collect();
            extras = (0..progs.len()).collect();
        }
        // (iv) runs of character ranges bracketed by Sigma* (several rigid patterns on the right-hand side)
        3 => {
            let rng: Vec<Arc<P>> = vec![a.clone(), b.clone(), ab.clone(), sig.clone()];
            let maxrun = if tier == Tier::Thorough { 4 } else { 3 };
            let mut runs: Vec<Vec<Arc<P>>> = vec![];
            let mut cur: Vec<Vec<Arc<P>>> = vec![vec![]];
            for _ in 0..maxrun {
                let mut nx = vec![];
                for r in &cur {
                    for e in &rng {
                        let mut t = r.clone();
                        t.push(e.clone());
                        nx.push(t);
                    }
                }
                runs.extend(nx.iter().cloned());
                cur = nx;
            }
            let cat = |v: &[Arc<P>]| -> P {
                let mut it = v.iter().rev();
                let mut acc: Arc<P> = it.next().unwrap().clone();
                for x in it {
                    acc = a2(P::Concat(x.clone(), acc));
                }
                (*acc).clone()
            };
            let short_runs: Vec<&Vec<Arc<P>>> = runs.iter().filter(|r| r.len() <= 2 + (tier == Tier::Thorough) as usize).collect();
            for r1 in &runs {
                // R, Sigma* R, R Sigma*, Sigma* R Sigma*
                let mut v = r1.clone();
                progs.push(cat(&v));
                v.insert(0, all.clone());
                progs.push(cat(&v));
                v.push(all.clone());
                progs.push(cat(&v));
                v.remove(0);
                progs.push(cat(&v));
            }
            for r1 in &short_runs {
                for r2 in &short_runs {
                    // Sigma* R1 Sigma* R2 Sigma*
                    let mut v: Vec<Arc<P>> = vec![all.clone()];
                    v.extend(r1.iter().cloned());
                    v.push(all.clone());
                    v.extend(r2.iter().cloned());
                    v.push(all.clone());
                    progs.push(cat(&v));
                }
            }
        }
        // (v) single characters separated by *restrictive* loops (a*, b*, Sigma+): the left-to-right placement of the
        // rigid parts can fail where the right-to-left one succeeds
        4 => {
            let letters: Vec<Arc<P>> = vec![a.clone(), b.clone(), ab.clone()];
            let gaps: Vec<Option<Arc<P>>> = vec![Some(all.clone()), Some(a2(P::Star(a.clone()))), Some(a2(P::Star(b.clone()))), Some(a2(P::Plus(sig.clone()))), None];
            let cat = |v: &[Arc<P>]| -> P {
                let mut it = v.iter().rev();
                let mut acc: Arc<P> = it.next().unwrap().clone();
                for x in it {
                    acc = a2(P::Concat(x.clone(), acc));
                }
                (*acc).clone()
            };
            // left-hand sides: all sequences of letters up to length 5 (4 in the quick tier)
            let maxlen = if tier == Tier::Thorough { 5 } else { 4 };
            let mut cur: Vec<Vec<Arc<P>>> = vec![vec![]];
            for _ in 0..maxlen {
                let mut nx = vec![];
                for s in &cur {
                    for l in &letters {
                        let mut t = s.clone();
                        t.push(l.clone());
                        progs.push(cat(&t));
                        nx.push(t);
                    }
                }
                cur = nx;
            }
            // right-hand sides: G0 r1 G1 and G0 r1 G1 r2 G2
            let push_gap = |v: &mut Vec<Arc<P>>, g: &Option<Arc<P>>| {
                if let Some(g) = g {
                    v.push(g.clone());
                }
            };
            for g0 in &gaps {
                for r1 in &letters {
                    for g1 in &gaps {
                        let mut v: Vec<Arc<P>> = vec![];
                        push_gap(&mut v, g0);
                        v.push(r1.clone());
                        push_gap(&mut v, g1);
                        progs.push(cat(&v));
                        for r2 in &letters {
                            for g2 in &gaps {
                                let mut w = v.clone();
                                w.push(r2.clone());
                                push_gap(&mut w, g2);
                                progs.push(cat(&w));
                            }
                        }
                    }
                }
            }
        }
        // (vi) constant strings in several spellings: powers of one- and two-letter blocks, the same words written out,
        // with a letter in front or behind, and with loops over nullable bodies (where a length bound must not be read off
        // the loop counter)
        5 => {
            let letters: Vec<Arc<P>> = vec![a.clone(), b.clone()];
            let mut blocks: Vec<Arc<P>> = letters.clone();
            for x in &letters {
                for y in &letters {
                    blocks.push(a2(P::Concat(x.clone(), y.clone())));
                }
            }
            let mut terms: Vec<Arc<P>> = vec![];
            for bl in &blocks {
                terms.push(bl.clone());
                for k in 2..=3u32 {
                    terms.push(a2(P::Pow(bl.clone(), k)));
                    terms.push(a2(P::Loop(bl.clone(), k, k)));
                }
                terms.push(a2(P::Concat(bl.clone(), bl.clone())));
                terms.push(a2(P::Loop(bl.clone(), 1, 2)));
                terms.push(a2(P::Plus(bl.clone())));
                terms.push(a2(P::Plus(a2(P::Comp(bl.clone())))));
                terms.push(a2(P::Pow(a2(P::Opt(bl.clone())), 2)));
            }
            let base = terms.clone();
            for t in &base {
                for l in &letters {
                    terms.push(a2(P::Concat(t.clone(), l.clone())));
                    terms.push(a2(P::Concat(l.clone(), t.clone())));
                }
            }
            terms.push(a2(P::Plus(sig.clone())));
            terms.push(a2(P::Concat(sig.clone(), a2(P::Plus(sig.clone())))));
            terms.push(a2(P::LoopInf(sig.clone(), 3)));
            terms.push(all.clone());
            for (i, t) in terms.iter().enumerate() {
                progs.push((**t).clone());
                if i < 40 {
                    short.push(progs.len() - 1);
                }
            }
        }
        // (iii) long sequences over 6 elements (rigid/flexible patterns on both sides)
        _ => {
            let elems: Vec<Arc<P>> = vec![a.clone(), all.clone(), b.clone(), sig.clone(), ab.clone(), a2(P::Star(a.clone())), a2(P::Plus(b.clone()))];
            let (ne, maxlen) = if tier == Tier::Thorough { (6, 6) } else { (5, 4) };
            let elems: Vec<Arc<P>> = elems.into_iter().take(ne).collect();
            progs.push(P::Eps);
            let mut cur: Vec<Arc<P>> = elems.clone();
            progs.extend(cur.iter().map(|p| (**p).clone()));
            for _ in 2..=maxlen {
                let mut nxt = vec![];
                for x in &elems {
                    for y in &cur {
                        nxt.push(a2(P::Concat(x.clone(), y.clone())));
                    }
                }
                progs.extend(nxt.iter().map(|p| (**p).clone()));
                cur = nxt;
            }
        }
    }
    let mut cache = RefCache::new(u.clone());
    let mut ids: HashMap<Dfa, usize> = HashMap::new();
    let mut dfas: Vec<Arc<Dfa>> = vec![];
    let mut lang = vec![];
    for p in &progs {
        beat();
        let d = cache.dfa(p);
        let n = dfas.len();
        let id = *ids.entry((*d).clone()).or_insert_with(|| {
            dfas.push(d.clone());
            n
        });
        lang.push(id);
    }
    C16Pool { u, progs, lang, dfas, short, extras, family, tier: tier.name() }
}

pub struct C16Engine;
const C16_NB: usize = 128;
const C16_FAMILIES: usize = 6;

fn c16_pair(pool: &C16Pool, re: &mut ReManager, terms: &[RegLan], i: usize, j: usize, memo: &mut HashMap<(usize, usize), bool>) -> (bool, Option<String>) {
    publish_case(|| json!({"kind": "pair", "family": pool.family, "tier": pool.tier, "i": i, "j": j, "r": pool.progs[i].show(), "s": pool.progs[j].show()}));
    let claimed = terms[i].included_in(terms[j]);
    unpublish_case();
    if !claimed {
        return (false, None);
    }
    let key = (pool.lang[i], pool.lang[j]);
    let ok = *memo.entry(key).or_insert_with(|| pool.dfas[key.0].subset_of(&pool.dfas[key.1]));
    let _ = re;
    if ok {
        (true, None)
    } else {
        // a word of the difference
        let diff = pool.dfas[key.0].inter(&pool.dfas[key.1].complement());
        let w = diff.shortest_word().unwrap_or_default();
        let word: Vec<u32> = w.iter().map(|&x| pool.u.regions[x].0).collect();
        (true, Some(format!("{} (built as {}) included_in {} (built as {}) is true, but {} is in the first language and not in the second", pool.progs[i].show(), terms[i], pool.progs[j].show(), terms[j], show_word(&word))))
    }
}

/// union / union_list of two or three pool programs must denote the union (operands built on a fresh manager,
/// so that the case is self-contained)
fn c16_union(pool: &C16Pool, idx: &[usize], rep: &mut Report) -> Option<String> {
    publish_case(|| json!({"kind": "union", "progs": idx.iter().map(|&i| pool.progs[i].show()).collect::<Vec<_>>()}));
    let r = guarded(|| {
        let mut re = ReManager::new();
        let ts: Vec<RegLan> = idx.iter().map(|&i| build_mgr(&pool.u, &mut re, &pool.progs[i])).collect();
        let t = if ts.len() == 2 { re.union(ts[0], ts[1]) } else { re.union_list(ts.clone()) };
        let mut d = (*pool.dfas[pool.lang[idx[0]]]).clone();
        for &i in &idx[1..] {
            d = d.union(&pool.dfas[pool.lang[i]]);
        }
        let pr = product_terms(&pool.u, &mut re, t, &d, d.init);
        (t, pr)
    });
    match r {
        Err(e) => Some(format!("union of {:?}: {}", idx.iter().map(|&i| pool.progs[i].show()).collect::<Vec<_>>(), e)),
        Ok((t, pr)) => {
            unpublish_case();
            if pr.capped {
                rep.inc("caps_hit");
            }
            rep.add("states", pr.nodes.len() as u64);
            rep.add("transitions", pr.transitions);
            rep.add("impl_traces", pr.transitions);
            pr.bad.map(|b| format!("union of {:?} is built as {}, which {} the word {}: an operand was dropped although it was not subsumed", idx.iter().map(|&i| pool.progs[i].show()).collect::<Vec<_>>(), t, if as_re(pr.nodes[b].0).nullable { "wrongly contains" } else { "loses" }, show_word(&pr.word(b))))
        }
    }
}

impl Engine for C16Engine {
    fn name(&self) -> &'static str {
        "c16"
    }
    fn meta(&self, ctx: &Ctx) -> Meta {
        let sizes: Vec<usize> = (0..C16_FAMILIES).map(|f| c16_pool(ctx.tier, f).progs.len()).collect();
        Meta {
            level: "model_checking",
            rule: format!("all ordered pairs (r, s) of six term pools ({} sequence terms with boolean combinations, {} level-1 programs, {} long concatenations, {} runs of ranges bracketed by Sigma*, {} letter sequences against letters separated by restrictive loops, {} constant strings in several spellings and loops over nullable bodies): whenever r.included_in(s) is true, L(r) must be a subset of L(s) (product of the canonical reference DFAs, memoised per pair of languages); 'false' is never questioned; union(x, y), union(y, x) and union_list over short/extra terms must denote the union (product BFS of the derivative graph with the union of the reference DFAs); states/transitions count the union products, evaluations the ordered pairs; non-trivial = distinct ordered pairs for which included_in answered true", sizes[0], sizes[1], sizes[2], sizes[3], sizes[4], sizes[5]),
            assumptions: vec!["inclusion of reference languages is decided on canonical minimal DFAs over the region alphabet".into()],
            exhaustive: true,
            space: "see rule".into(),
        }
    }
    fn num_batches(&self, _ctx: &Ctx) -> usize {
        C16_NB * C16_FAMILIES
    }
    fn run_batch(&self, ctx: &Ctx, batch: usize, rep: &mut Report) {
        let family = batch / C16_NB;
        let b = batch % C16_NB;
        let pool = c16_pool(ctx.tier, family);
        let mut re = ReManager::new();
        let terms: Vec<RegLan> = pool.progs.iter().map(|p| { beat(); build_mgr(&pool.u, &mut re, p) }).collect();
        let mut memo: HashMap<(usize, usize), bool> = HashMap::new();
        let n = terms.len();
        for i in 0..n {
            if i % C16_NB != b {
                continue;
            }
            beat();
            let mut claimed = 0u64;
            for j in 0..n {
                let (c, m) = c16_pair(&pool, &mut re, &terms, i, j, &mut memo);
                if c {
                    claimed += 1;
                }
                if let Some(m) = m {
                    rep.violation("C16", "c16", json!({"kind": "pair", "tier": ctx.tier.name(), "family": family, "i": i, "j": j, "r": pool.progs[i].show(), "s": pool.progs[j].show()}), m);
                }
            }
            rep.add("evaluations", n as u64);
            rep.add("nontrivial", claimed);
            rep.add("claimed_inclusions", claimed);
            if rep.samples.len() < 3 && claimed > 3 && i > 50 {
                let j = (0..n).find(|&j| j != i && terms[i].included_in(terms[j]) && pool.lang[i] != pool.lang[j]);
                if let Some(j) = j {
                    let sj = json!({"r": pool.progs[i].show(), "s": pool.progs[j].show(), "included_in": true, "reference_subset": true});
                    rep.sample(|| sj);
                }
            }
        }
        // unions must not lose strings
        let mut k = 0usize;
        let xs: Vec<usize> = pool.extras.iter().chain(pool.short.iter()).copied().collect();
        for &x in &xs {
            for &y in &pool.short {
                k += 1;
                if k % C16_NB != b {
                    continue;
                }
                beat();
                for idx in [vec![x, y], vec![y, x], vec![y, x, pool.short[(x + y) % pool.short.len()]]] {
                    rep.inc("evaluations");
                    rep.inc("unions");
                    if let Some(m) = c16_union(&pool, &idx, rep) {
                        let ps: Vec<String> = idx.iter().map(|&i| pool.progs[i].show()).collect();
                        rep.violation("C16", "c16", json!({"kind": "union", "progs": ps}), m);
                    }
                }
            }
        }
    }
    fn hang_is_violation(&self, _p: &str) -> bool {
        true
    }
    fn replay(&self, _ctx: &Ctx, c: &Value, rep: &mut Report) {
        rep.inc("evaluations");
        if c["kind"] == "pair" {
            // rebuild the whole pool on one manager in the same order as the run (included_in is pure)
            let tier = if c["tier"] == "thorough" { Tier::Thorough } else { Tier::Quick };
            let pool = c16_pool(tier, c["family"].as_u64().unwrap_or(0) as usize);
            let mut re = ReManager::new();
            let terms: Vec<RegLan> = pool.progs.iter().map(|p| build_mgr(&pool.u, &mut re, p)).collect();
            let (i, j) = (c["i"].as_u64().unwrap_or(0) as usize, c["j"].as_u64().unwrap_or(0) as usize);
            if i >= terms.len() || j >= terms.len() {
                return;
            }
            let mut memo = HashMap::new();
            if let (_, Some(m)) = c16_pair(&pool, &mut re, &terms, i, j, &mut memo) {
                rep.violation("C16", "c16", c.clone(), m);
            }
            return;
        }
        let u = Universe::new(0);
        let mut cache = RefCache::new(u.clone());
        let names: Vec<String> = c["progs"].as_array().map(|a| a.iter().map(|x| x.as_str().unwrap_or("").to_string()).collect()).unwrap_or_default();
        let progs: Vec<P> = names.iter().filter_map(|s| P::parse(s).ok()).collect();
        if progs.len() != names.len() || progs.is_empty() {
            return;
        }
        let dfas: Vec<Arc<Dfa>> = progs.iter().map(|p| cache.dfa(p)).collect();
        let pool = C16Pool { u: u.clone(), lang: (0..progs.len()).collect(), dfas, progs, short: vec![], extras: vec![], family: 0, tier: "quick" };
        let idx: Vec<usize> = (0..pool.progs.len()).collect();
        if let Some(m) = c16_union(&pool, &idx, rep) {
            rep.violation("C16", "c16", c.clone(), m);
        }
    }
}

#[allow(dead_code)]
fn unused(_: SmtString) {
    let _ = ptr;
}
