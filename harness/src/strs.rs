//! String-level properties: C06 (string functions), C08 (literals), C09 (order and conversions), C17 (well-formedness).
//! Exhaustive enumeration of finite argument spaces against references transcribed from SMT-LIB 2.6.

use crate::infra::*;
use aws_smt_strings::regular_expressions::ReManager;
use aws_smt_strings::smt_regular_expressions as wr;
use aws_smt_strings::smt_strings::*;
use serde_json::{json, Value};
use std::collections::HashSet;

pub const NB: usize = 48;

pub fn all_strings(alpha: &[u32], maxlen: usize) -> Vec<Vec<u32>> {
    let mut out = vec![vec![]];
    let mut cur: Vec<Vec<u32>> = vec![vec![]];
    for _ in 0..maxlen {
        let mut nx = vec![];
        for s in &cur {
            for &c in alpha {
                let mut t = s.clone();
                t.push(c);
                nx.push(t);
            }
        }
        out.extend(nx.iter().cloned());
        cur = nx;
    }
    out
}

fn mk(v: &[u32]) -> SmtString {
    SmtString::from(v.to_vec())
}
fn codes(s: &SmtString) -> Vec<u32> {
    s.iter().copied().collect()
}
fn jarr(v: &[u32]) -> Value {
    json!(v)
}
fn parr(v: &Value) -> Vec<u32> {
    v.as_array().map(|a| a.iter().map(|x| x.as_u64().unwrap_or(0) as u32).collect()).unwrap_or_default()
}

/// A table-driven engine: `run(ctx, batch, nb, rep)` enumerates the whole space and handles the items whose
/// index is congruent to `batch`; `replay(case, rep)` re-executes one recorded argument tuple.
pub struct SimpleEngine {
    pub name: &'static str,
    pub nb: fn(&Ctx) -> usize,
    pub run: fn(&Ctx, usize, usize, &mut Report),
    pub replay: fn(&Ctx, &Value, &mut Report),
    pub meta: fn(&Ctx) -> Meta,
    pub hang_violation: bool,
}

impl Engine for SimpleEngine {
    fn name(&self) -> &'static str {
        self.name
    }
    fn meta(&self, ctx: &Ctx) -> Meta {
        (self.meta)(ctx)
    }
    fn num_batches(&self, ctx: &Ctx) -> usize {
        (self.nb)(ctx)
    }
    fn run_batch(&self, ctx: &Ctx, batch: usize, rep: &mut Report) {
        (self.run)(ctx, batch, (self.nb)(ctx), rep)
    }
    fn replay(&self, ctx: &Ctx, case: &Value, rep: &mut Report) {
        (self.replay)(ctx, case, rep)
    }
    fn hang_is_violation(&self, _p: &str) -> bool {
        self.hang_violation
    }
}

// =============================================================================================
// C06

fn occurs_at(s: &[u32], p: &[u32], n: usize) -> bool {
    n + p.len() <= s.len() && &s[n..n + p.len()] == p
}
fn ref_indexof(s: &[u32], t: &[u32], i: i64) -> i64 {
    // the smallest n >= i such that t occurs at n, for 0 <= i <= |s|; -1 otherwise
    if i < 0 || i > s.len() as i64 {
        return -1;
    }
    for n in (i as usize)..=s.len() {
        if occurs_at(s, t, n) {
            return n as i64;
        }
    }
    -1
}
fn ref_replace(s: &[u32], p: &[u32], r: &[u32]) -> Vec<u32> {
    for n in 0..=s.len() {
        if occurs_at(s, p, n) {
            let mut x = s[..n].to_vec();
            x.extend_from_slice(r);
            x.extend_from_slice(&s[n + p.len()..]);
            return x;
        }
    }
    s.to_vec()
}
fn ref_replace_all(s: &[u32], p: &[u32], r: &[u32]) -> Vec<u32> {
    if p.is_empty() {
        return s.to_vec();
    }
    for n in 0..=s.len() {
        if occurs_at(s, p, n) {
            let mut x = s[..n].to_vec();
            x.extend_from_slice(r);
            x.extend(ref_replace_all(&s[n + p.len()..], p, r));
            return x;
        }
    }
    s.to_vec()
}
fn ref_substr(s: &[u32], m: i64, n: i64) -> Vec<u32> {
    if m < 0 || m >= s.len() as i64 || n <= 0 {
        return vec![];
    }
    let l = std::cmp::min(n, s.len() as i64 - m) as usize;
    s[m as usize..m as usize + l].to_vec()
}

fn c06_indices(len: usize) -> Vec<i32> {
    let mut v = vec![i32::MIN, i32::MIN + 1, -2, -1, i32::MAX - 1, i32::MAX];
    for i in 0..=(len as i32 + 2) {
        v.push(i);
    }
    v.push(i32::MAX - len as i32);
    v.push(i32::MAX - len as i32 - 1);
    v.sort_unstable();
    v.dedup();
    v
}

/// one case of C06; returns a message if the crate's answer differs from SMT-LIB's
fn c06_case(f: &str, s: &[u32], t: &[u32], r: &[u32], i: i32, n: i32) -> Option<String> {
    let (ms, mt, mr) = (mk(s), mk(t), mk(r));
    let res = guarded(|| -> Option<String> {
        match f {
            "at" => {
                let e = if i >= 0 && (i as usize) < s.len() { vec![s[i as usize]] } else { vec![] };
                let g = str_at(&ms, i);
                (codes(&g) != e).then(|| format!("str_at({:?}, {}) = {:?}, SMT-LIB: {:?}", s, i, codes(&g), e))
            }
            "substr" => {
                let e = ref_substr(s, i as i64, n as i64);
                let g = str_substr(&ms, i, n);
                (codes(&g) != e).then(|| format!("str_substr({:?}, {}, {}) = {:?}, SMT-LIB: {:?}", s, i, n, codes(&g), e))
            }
            "len" => {
                let g = str_len(&ms);
                (g as usize != s.len()).then(|| format!("str_len({:?}) = {}", s, g))
            }
            "concat" => {
                let mut e = s.to_vec();
                e.extend_from_slice(t);
                let g = str_concat(&ms, &mt);
                (codes(&g) != e).then(|| format!("str_concat({:?}, {:?}) = {:?}", s, t, codes(&g)))
            }
            "prefixof" => {
                let e = s.len() >= t.len() && s[..t.len()] == t[..];
                let g = str_prefixof(&mt, &ms);
                (g != e).then(|| format!("str_prefixof({:?}, {:?}) = {}, SMT-LIB: {}", t, s, g, e))
            }
            "suffixof" => {
                let e = s.len() >= t.len() && s[s.len() - t.len()..] == t[..];
                let g = str_suffixof(&mt, &ms);
                (g != e).then(|| format!("str_suffixof({:?}, {:?}) = {}, SMT-LIB: {}", t, s, g, e))
            }
            "contains" => {
                let e = (0..=s.len()).any(|k| occurs_at(s, t, k));
                let g = str_contains(&ms, &mt);
                (g != e).then(|| format!("str_contains({:?}, {:?}) = {}, SMT-LIB: {}", s, t, g, e))
            }
            "indexof" => {
                let e = ref_indexof(s, t, i as i64);
                let g = str_indexof(&ms, &mt, i) as i64;
                (g != e).then(|| format!("str_indexof({:?}, {:?}, {}) = {}, SMT-LIB: {}", s, t, i, g, e))
            }
            "replace" => {
                let e = ref_replace(s, t, r);
                let g = str_replace(&ms, &mt, &mr);
                (codes(&g) != e).then(|| format!("str_replace({:?}, {:?}, {:?}) = {:?}, SMT-LIB: {:?}", s, t, r, codes(&g), e))
            }
            "replace_all" => {
                let e = ref_replace_all(s, t, r);
                let g = str_replace_all(&ms, &mt, &mr);
                (codes(&g) != e).then(|| format!("str_replace_all({:?}, {:?}, {:?}) = {:?}, SMT-LIB: {:?}", s, t, r, codes(&g), e))
            }
            _ => Some(format!("unknown function {}", f)),
        }
    });
    match res {
        Ok(m) => m,
        Err(e) => Some(format!("{}({:?}, {:?}, {:?}, {}, {}) {}", f, s, t, r, i, n, e)),
    }
}

/// publish a case (only in the re-run that localises a hang) and hand it on
pub fn pubj(v: Value) -> Value {
    publish_case(|| v.clone());
    v
}

fn c06_report(rep: &mut Report, f: &str, s: &[u32], t: &[u32], r: &[u32], i: i32, n: i32) {
    rep.inc("evaluations");
    publish_case(|| json!({"fn": f, "s": jarr(s), "t": jarr(t), "r": jarr(r), "i": i, "n": n}));
    let m = c06_case(f, s, t, r, i, n);
    unpublish_case();
    if let Some(m) = m {
        rep.violation("C06", "c06", json!({"fn": f, "s": jarr(s), "t": jarr(t), "r": jarr(r), "i": i, "n": n}), m);
    }
}

fn c06_alphabets(tier: Tier) -> Vec<(Vec<u32>, usize, usize, usize)> {
    // (alphabet, max subject length, max pattern length, max replacement length)
    match tier {
        // surrogate code points and 0xFFFD are ordinary SMT characters: they must never be confused with each other
        Tier::Quick => vec![(vec![97, 98], 8, 5, 1), (vec![97, 98], 5, 3, 2), (vec![0, MAX_CHAR], 3, 2, 1), (vec![0x61, 0xFFFD, 0xD800, 0xDFFF], 3, 2, 1)],
        Tier::Thorough => vec![(vec![97, 98], 10, 6, 1), (vec![97, 98], 8, 5, 2), (vec![97, 98, 99], 6, 4, 2), (vec![97, 98, MAX_CHAR], 6, 3, 2), (vec![0, 1, MAX_CHAR - 1, MAX_CHAR], 4, 2, 1), (vec![0x61, 0xFFFD, 0xD800, 0xDFFF, 0x10000], 4, 2, 2)],
    }
}

fn c06_run(ctx: &Ctx, batch: usize, nb: usize, rep: &mut Report) {
    let mut item = 0usize;
    for (s, p) in c06_long_cases() {
        item += 1;
        if item % nb != batch {
            continue;
        }
        rep.inc("long_pattern_cases");
        for f in ["contains", "prefixof", "suffixof"] {
            c06_report(rep, f, &s, &p, &[], 0, 0);
        }
        for i in 0..=(s.len() as i32) {
            c06_report(rep, "indexof", &s, &p, &[], i, 0);
        }
        for r in [vec![], vec![122], p.clone()] {
            c06_report(rep, "replace", &s, &p, &r, 0, 0);
            c06_report(rep, "replace_all", &s, &p, &r, 0, 0);
        }
    }
    // the search core alone on longer strings: all subjects up to length 12 (13) and all patterns of length 4..8 (9) over
    // {a,b}: table-driven searches (border / failure tables) only go wrong for nested borders, which need this size
    {
        let (ls, lp) = if ctx.tier == Tier::Thorough { (13, 9) } else { (12, 8) };
        let ss = all_strings(&[97, 98], ls);
        let ps: Vec<Vec<u32>> = all_strings(&[97, 98], lp).into_iter().filter(|p| p.len() >= 4).collect();
        for s in ss.iter().filter(|s| s.len() >= 9) {
            item += 1;
            if item % nb != batch {
                continue;
            }
            beat();
            for p in ps.iter().filter(|p| p.len() <= s.len()) {
                rep.inc("search_core_pairs");
                c06_report(rep, "indexof", s, p, &[], 0, 0);
                c06_report(rep, "indexof", s, p, &[], 1, 0);
                c06_report(rep, "replace_all", s, p, &[122], 0, 0);
            }
        }
    }
    // many distinct letters: patterns made of k = 1..14 different characters (and with one of them repeated), in texts
    // that put every short prefix over {first letter, last letter, a stranger} in front of the occurrence
    {
        let letters: Vec<u32> = (0..14u32).map(|i| 0x61 + i).collect();
        let stranger = 0x23u32;
        for k in 1..=letters.len() {
            for variant in 0..3 {
                let mut pat: Vec<u32> = letters[..k].to_vec();
                if variant == 1 {
                    pat.push(letters[0]);
                } else if variant == 2 && k >= 2 {
                    pat.insert(1, letters[k - 1]);
                }
                let pre_alpha = [letters[0], letters[k - 1], stranger];
                for pre in all_strings(&pre_alpha, 3) {
                    for suf in [vec![], vec![stranger], vec![letters[k - 1]]] {
                        item += 1;
                        if item % nb != batch {
                            continue;
                        }
                        rep.inc("distinct_letter_cases");
                        let mut t = pre.clone();
                        t.extend(&pat);
                        t.extend(&suf);
                        for f in ["contains", "suffixof", "prefixof"] {
                            c06_report(rep, f, &t, &pat, &[], 0, 0);
                        }
                        for i in 0..=2 {
                            c06_report(rep, "indexof", &t, &pat, &[], i, 0);
                        }
                        c06_report(rep, "replace", &t, &pat, &[stranger], 0, 0);
                        c06_report(rep, "replace_all", &t, &pat, &[], 0, 0);
                        // near miss: the text without the last character of the occurrence
                        let mut t2 = pre.clone();
                        t2.extend(&pat[..pat.len() - 1]);
                        t2.extend(&suf);
                        c06_report(rep, "contains", &t2, &pat, &[], 0, 0);
                        c06_report(rep, "indexof", &t2, &pat, &[], 0, 0);
                    }
                }
            }
        }
    }
    // characters that collide in a table indexed by a reduced code (any modulus or mask up to 4096, and the usual
    // power-of-two strides): pattern [a, d, b] in the text [x, a, a, d, b] and in [x, d, a, d, b] for d = a + m
    {
        let (a, b, x) = (0x61u32, 0x62u32, 0x78u32);
        let ms: Vec<u32> = (1..=4096u32).chain([1 << 13, 1 << 14, 1 << 15, 1 << 16, (1 << 16) + 1, 65_521, 1 << 17, 0x2FF00]).collect();
        for (mi, &m) in ms.iter().enumerate() {
            if mi % nb != batch {
                continue;
            }
            let d = a + m;
            if d > MAX_CHAR || d == b || d == x {
                continue;
            }
            rep.inc("reduced_code_collisions");
            let pat = [a, d, b];
            for text in [vec![x, a, a, d, b], vec![x, d, a, d, b], vec![d, a, a, d, b, d], vec![a, d, a, d, d, a, d, b]] {
                c06_report(rep, "indexof", &text, &pat, &[], 0, 0);
                c06_report(rep, "contains", &text, &pat, &[], 0, 0);
                c06_report(rep, "replace_all", &text, &pat, &[x], 0, 0);
            }
        }
    }
    // self-overlapping texts over three letters: for every pattern of length 5..8 over {a,b,c}, the texts made of a
    // prefix of the pattern followed by an infix of it (every failure-table entry of a prefix-function search is
    // exercised, with and without a real occurrence)
    {
        let ps: Vec<Vec<u32>> = all_strings(&[97, 98, 99], if ctx.tier == Tier::Thorough { 8 } else { 7 }).into_iter().filter(|p| p.len() >= 5 && p.iter().any(|&c| c == 99) && p.iter().any(|&c| c == 98)).collect();
        for p in &ps {
            item += 1;
            if item % nb != batch {
                continue;
            }
            if item % 256 == batch {
                beat();
            }
            let n = p.len();
            for i in 1..=n {
                for lo in 0..n {
                    for hi in lo + 1..=n {
                        if i == n && lo == 0 {
                            continue;
                        }
                        let mut t: Vec<u32> = p[..i].to_vec();
                        t.extend(&p[lo..hi]);
                        if t.len() < n {
                            continue;
                        }
                        rep.inc("self_overlap_cases");
                        c06_report(rep, "indexof", &t, p, &[], 0, 0);
                    }
                }
            }
        }
    }
    for (alpha, ls, lp, lr) in c06_alphabets(ctx.tier) {
        let ss = all_strings(&alpha, ls);
        let ps = all_strings(&alpha, lp);
        let rs = all_strings(&alpha, lr);
        for s in &ss {
            item += 1;
            if item % nb != batch {
                continue;
            }
            beat();
            let idx = c06_indices(s.len());
            c06_report(rep, "len", s, &[], &[], 0, 0);
            for &i in &idx {
                c06_report(rep, "at", s, &[], &[], i, 0);
                for &n in &idx {
                    c06_report(rep, "substr", s, &[], &[], i, n);
                }
            }
            for p in &ps {
                let occ = (0..=s.len()).filter(|&k| occurs_at(s, p, k)).count();
                if occ >= 2 && !p.is_empty() {
                    rep.inc("nontrivial"); // (subject, pattern) pairs with several (possibly overlapping) occurrences
                }
                rep.hist("occurrences", &occ.min(4).to_string());
                for f in ["concat", "prefixof", "suffixof", "contains"] {
                    c06_report(rep, f, s, p, &[], 0, 0);
                }
                for &i in &idx {
                    c06_report(rep, "indexof", s, p, &[], i, 0);
                }
                for r in &rs {
                    c06_report(rep, "replace", s, p, r, 0, 0);
                    c06_report(rep, "replace_all", s, p, r, 0, 0);
                }
            }
            if rep.samples.len() < 3 && s.len() >= 3 {
                let sj = json!({"fn": "indexof/replace/replace_all/substr/...", "subject": s, "patterns": ps.len(), "indices": idx});
                rep.sample(|| sj);
            }
        }
    }
}

/// long subjects/patterns with repeated prefixes (search shortcuts only go wrong on long self-overlapping patterns)
fn c06_long_cases() -> Vec<(Vec<u32>, Vec<u32>)> {
    let units: Vec<Vec<u32>> = vec![vec![97], vec![97, 98], vec![97, 98, 99], vec![97, 97, 98]];
    let mut pats: Vec<Vec<u32>> = vec![];
    for u in &units {
        for reps in 1..=4 {
            for tail in [vec![], vec![100], vec![97], vec![97, 100]] {
                let mut p: Vec<u32> = vec![];
                for _ in 0..reps {
                    p.extend(u);
                }
                p.extend(&tail);
                if p.len() >= 3 && p.len() <= 12 {
                    pats.push(p);
                }
            }
        }
    }
    pats.sort();
    pats.dedup();
    let mut out = vec![];
    // proper prefixes / suffixes / infixes of long strings (block-wise comparisons start at length 8)
    let long: Vec<u32> = (0..26).map(|i| 97 + (i * 7 % 5) as u32).collect();
    for len in [7usize, 8, 9, 15, 16, 17, 24] {
        for start in [0usize, 1, 2, 26 - len] {
            if start + len <= long.len() {
                out.push((long.clone(), long[start..start + len].to_vec()));
                let mut near = long[start..start + len].to_vec();
                near[len / 2] = 122;
                out.push((long.clone(), near));
            }
        }
    }
    for p in &pats {
        // subjects: partial matches of every length followed by the pattern, and the pattern overlapping itself
        for k in 0..p.len() {
            for pre in [vec![], vec![97], vec![100]] {
                let mut s = pre.clone();
                s.extend(&p[..k]);
                s.extend(p.iter());
                s.extend(&p[..k.min(2)]);
                out.push((s, p.clone()));
                let mut s2 = pre.clone();
                s2.extend(&p[..k]);
                s2.extend(&p[..p.len() - 1]);
                out.push((s2, p.clone()));
            }
        }
    }
    // long periodic patterns (13 to 51 characters, repeated characters): the occurrence after every short prefix,
    // after a partial occurrence, twice in a row, and the near miss
    for u in &units {
        for total in [13usize, 14, 15, 16, 17, 31, 32, 33, 34, 35, 36, 40, 48, 51] {
            let pat: Vec<u32> = u.iter().cycle().take(total).copied().collect();
            let mut pres: Vec<Vec<u32>> = vec![vec![], vec![99], vec![97], vec![100, 99], u.clone()];
            pres.push(pat[..total / 2].to_vec());
            pres.push(pat[1..].to_vec());
            for pre in pres {
                let mut t = pre.clone();
                t.extend(&pat);
                out.push((t.clone(), pat.clone()));
                let mut t2 = t.clone();
                t2.push(100);
                t2.extend(&pat);
                out.push((t2, pat.clone()));
                let mut miss = pre.clone();
                miss.extend(&pat[..total - 1]);
                miss.push(100);
                out.push((miss, pat.clone()));
            }
        }
    }
    out
}

fn c06_replay(_ctx: &Ctx, c: &Value, rep: &mut Report) {
    let f = c["fn"].as_str().unwrap_or("").to_string();
    c06_report(rep, &f, &parr(&c["s"]), &parr(&c["t"]), &parr(&c["r"]), c["i"].as_i64().unwrap_or(0) as i32, c["n"].as_i64().unwrap_or(0) as i32);
}

fn c06_meta(ctx: &Ctx) -> Meta {
    let mut space = c06_alphabets(ctx.tier).iter().map(|(a, ls, lp, lr)| format!("alphabet {:?}: all subjects of length <= {}, patterns <= {}, replacements <= {}", a, ls, lp, lr)).collect::<Vec<_>>().join("; ");
    space.push_str(&format!("; {} long (subject, pattern) cases with periodic patterns of length 3-12 and partial matches of every length before the occurrence", c06_long_cases().len()));
    Meta {
        level: "exploration",
        rule: "every tuple (function, subject, pattern, replacement, index, length) of the stated finite space is evaluated once and compared with a brute-force transcription of the SMT-LIB 2.6 definition; index/length arguments range over i32::MIN, i32::MIN+1, -2, -1, 0..len+2, i32::MAX-len-1, i32::MAX-len, i32::MAX-1, i32::MAX (all pairs for substr); non-trivial = distinct (subject, non-empty pattern) pairs with at least two occurrences".into(),
        assumptions: vec!["the reference functions are direct transcriptions of the SMT-LIB 2.6 definitions (least n >= i with an occurrence, first occurrence, recursive leftmost non-overlapping replacement)".into()],
        exhaustive: true,
        space,
    }
}

pub fn c06_engine() -> SimpleEngine {
    SimpleEngine { name: "c06", nb: |_| NB, run: c06_run, replay: c06_replay, meta: c06_meta, hang_violation: true }
}

// =============================================================================================
// C08

/// independent grammar-level reader of SMT-LIB 2.6 string literal bodies (after un-doubling quotes)
pub fn ref_parse(t: &[char]) -> Vec<u32> {
    let mut out = vec![];
    let mut i = 0;
    while i < t.len() {
        if t[i] == '\\' && i + 1 < t.len() && t[i + 1] == 'u' {
            // \u d3 d2 d1 d0 (exactly four hex digits)
            if i + 6 <= t.len() && t[i + 2..i + 6].iter().all(|c| c.is_ascii_hexdigit()) {
                let v = u32::from_str_radix(&t[i + 2..i + 6].iter().collect::<String>(), 16).unwrap();
                out.push(v);
                i += 6;
                continue;
            }
            // \u{d}, ..., \u{ddddd} with value <= 0x2FFFF
            if i + 2 < t.len() && t[i + 2] == '{' {
                let mut j = i + 3;
                while j < t.len() && t[j].is_ascii_hexdigit() && j - (i + 3) < 6 {
                    j += 1;
                }
                let nd = j - (i + 3);
                if (1..=5).contains(&nd) && j < t.len() && t[j] == '}' {
                    let v = u32::from_str_radix(&t[i + 3..j].iter().collect::<String>(), 16).unwrap();
                    if v <= 0x2FFFF {
                        out.push(v);
                        i = j + 1;
                        continue;
                    }
                }
            }
        }
        let c = t[i] as u32;
        // characters outside the SMT-LIB alphabet cannot be copied; any replacement inside the alphabet is accepted (C17)
        out.push(c);
        i += 1;
    }
    out
}

fn c08_parse_case(text: &str) -> Option<String> {
    publish_case(|| json!({"kind": "parse", "text": text}));
    let t: Vec<char> = text.chars().collect();
    let exp = ref_parse(&t);
    match guarded(|| parse_smt_literal(text)) {
        Err(e) => Some(format!("parse_smt_literal({:?}) {}", text, e)),
        Ok(g) => {
            let got = codes(&g);
            // positions holding a character above 0x2FFFF in the text are not SMT-LIB characters: only the length and the other positions are compared
            let same = got.len() == exp.len() && got.iter().zip(exp.iter()).all(|(&a, &b)| a == b || (b > MAX_CHAR && a <= MAX_CHAR));
            (!same).then(|| format!("parse_smt_literal({:?}) = {:?}, SMT-LIB reading: {:?}", text, got, exp))
        }
    }
}

/// printing: printable ASCII only, quotes doubled, reads back to the same string
fn c08_print_case(s: &[u32]) -> Option<String> {
    publish_case(|| json!({"kind": "print", "s": s}));
    let ms = mk(s);
    let r = guarded(|| ms.to_string());
    let printed = match r {
        Err(e) => return Some(format!("Display of {:?} {}", s, e)),
        Ok(p) => p,
    };
    let pc: Vec<char> = printed.chars().collect();
    if pc.len() < 2 || pc[0] != '"' || pc[pc.len() - 1] != '"' {
        return Some(format!("Display of {:?} = {} is not enclosed in double quotes", s, printed));
    }
    let body = &pc[1..pc.len() - 1];
    if let Some(c) = body.iter().find(|&&c| (c as u32) < 0x20 || (c as u32) > 0x7E) {
        return Some(format!("Display of {:?} contains the non-printable or non-ASCII character {:?}", s, c));
    }
    // quotes must be doubled: un-double, failing on a lone quote
    let mut un = String::new();
    let mut i = 0;
    while i < body.len() {
        if body[i] == '"' {
            if i + 1 < body.len() && body[i + 1] == '"' {
                un.push('"');
                i += 2;
                continue;
            }
            return Some(format!("Display of {:?} = {} contains a double quote that is not doubled", s, printed));
        }
        un.push(body[i]);
        i += 1;
    }
    let back = parse_smt_literal(&un);
    if codes(&back) != s {
        return Some(format!("Display of {:?} = {} reads back as {:?}", s, printed, codes(&back)));
    }
    // under a width specification (which the literal may ignore or honour by padding around it) nothing inside the
    // quotes may change
    if s.len() <= 4 {
        let plain = &printed;
        for (spec, out) in [("{:3}", format!("{:3}", ms)), ("{:>12}", format!("{:>12}", ms)), ("{:<12}", format!("{:<12}", ms)), ("{:^13}", format!("{:^13}", ms))] {
            if out.trim_matches(' ') != plain.as_str() {
                return Some(format!("format!(\"{}\") of {:?} = {:?}, which is not the literal {} (padded or not)", spec, s, out, plain));
            }
        }
    }
    // and by the SMT-LIB reading of the literal itself (independent of the crate's parser)
    let unc: Vec<char> = un.chars().collect();
    let exp = ref_parse(&unc);
    if exp != s {
        return Some(format!("Display of {:?} = {} denotes {:?} under the SMT-LIB 2.6 escape rules", s, printed, exp));
    }
    None
}

fn c08_char_case(x: u32) -> Option<String> {
    publish_case(|| json!({"kind": "char", "x": x}));
    for (name, txt) in [("char_to_smt", char_to_smt(x)), ("smt_char_as_string", smt_char_as_string(x))] {
        if txt.chars().any(|c| (c as u32) < 0x20 || (c as u32) > 0x7E) {
            return Some(format!("{}({:#x}) = {:?} is not printable ASCII", name, x, txt));
        }
        let un = txt.replace("\"\"", "\"");
        let back = parse_smt_literal(&un);
        if codes(&back) != vec![x] {
            return Some(format!("{}({:#x}) = {:?} reads back as {:?}", name, x, txt, codes(&back)));
        }
        let unc: Vec<char> = un.chars().collect();
        if ref_parse(&unc) != vec![x] {
            return Some(format!("{}({:#x}) = {:?} denotes {:?} under the SMT-LIB 2.6 escape rules", name, x, txt, ref_parse(&unc)));
        }
    }
    None
}

fn attempts(digits: &[char], maxd: usize) -> Vec<String> {
    // escape attempts: \u [ { ] d^0..maxd [ } ]
    let mut v = vec![];
    for brace in [false, true] {
        let mut ds: Vec<String> = vec![String::new()];
        let mut all: Vec<String> = vec![String::new()];
        for _ in 0..maxd {
            let mut nx = vec![];
            for d in &ds {
                for &h in digits {
                    let mut t = d.clone();
                    t.push(h);
                    nx.push(t);
                }
            }
            all.extend(nx.iter().cloned());
            ds = nx;
        }
        for d in &all {
            for close in ["", "}"] {
                v.push(format!("\\u{}{}{}", if brace { "{" } else { "" }, d, close));
            }
        }
    }
    v
}

/// enumerate the texts of C08; f is called with (index, text)
fn c08_texts(tier: Tier, f: &mut dyn FnMut(usize, &str)) {
    let mut idx = 0usize;
    // (1) all short texts over the critical characters
    let alpha = ['\\', 'u', '{', '}', '0', '2', '3', 'F', 'g'];
    let maxlen = if tier == Tier::Thorough { 8 } else { 6 };
    let mut cur: Vec<String> = vec![String::new()];
    f(idx, "");
    idx += 1;
    for _ in 0..maxlen {
        let mut nx = Vec::with_capacity(cur.len() * alpha.len());
        for s in &cur {
            for &c in &alpha {
                let mut t = s.clone();
                t.push(c);
                f(idx, &t);
                idx += 1;
                nx.push(t);
            }
        }
        cur = nx;
    }
    drop(cur);
    // (2) escape-shaped family: prefix . \u [ { ] digits [closer]
    let hs = ['0', '2', '3', 'F', 'a'];
    for pre in ["", "\\", "g", "\\u", "\"", "\\u{"] {
        for brace in [false, true] {
            for nd in 0..=7usize {
                let mut digs: Vec<String> = vec![String::new()];
                for _ in 0..nd {
                    let mut nx = vec![];
                    for d in &digs {
                        for &h in &hs[..4 + (nd <= 5) as usize] {
                            let mut t = d.clone();
                            t.push(h);
                            nx.push(t);
                        }
                    }
                    digs = nx;
                }
                for d in &digs {
                    for close in ["", "}", "g", "\\u0020", "}}", "{"] {
                        let t = format!("{}\\u{}{}{}", pre, if brace { "{" } else { "" }, d, close);
                        f(idx, &t);
                        idx += 1;
                    }
                }
            }
        }
    }
    // (2b) every leading hex digit (both cases) of 4-, 5- and 6-digit escapes: the value test must be a comparison with
    // 0x2FFFF, whatever the bit pattern of the leading digit
    for lead in "0123456789abcdefABCDEF".chars() {
        for rest in ["000", "fff", "0000", "ffff", "0001", "8000", "FFFF", "00000"] {
            for (open, close) in [("\\u{", "}"), ("\\u", ""), ("x\\u{", "}y")] {
                let t = format!("{}{}{}{}", open, lead, rest, close);
                f(idx, &t);
                idx += 1;
            }
        }
    }
    // (3) two consecutive escape attempts (state carried from an abandoned attempt into the next one)
    let at = attempts(&['1', 'F'], if tier == Tier::Thorough { 6 } else { 5 });
    let second = attempts(&['0', '4', 'f'], 4);
    for a in &at {
        for b in &second {
            f(idx, &format!("{}{}", a, b));
            idx += 1;
        }
        for b in ["\\u0041", "\\u{41}", "\\u{2FFFF}", "\\u{30000}", "\\uFFFF", "A\\u0041"] {
            f(idx, &format!("{}G{}", a, b));
            idx += 1;
        }
    }
    // (5) a non-ASCII character (2-4 bytes in UTF-8) in front of escape attempts: byte offsets and character counts differ
    for pre in ["\u{e9}", "\u{ffff}x", "\u{10000}", "a\u{2ffff}\u{e9}"] {
        for a in &at {
            for post in ["", "}", "\\u0041", "\u{e9}\\u{42}"] {
                f(idx, &format!("{}{}{}", pre, a, post));
                idx += 1;
            }
        }
        for b in ["\\u0041", "\\u{41}", "\\u{2FFFF}", "\\uFFFF", "\\u{0}", "\\\\u0041", "x\\u0041\u{e9}\\u{42}"] {
            f(idx, &format!("{}{}", pre, b));
            idx += 1;
        }
    }
    // (6) near misses of the special characters: U for u, brackets for braces, a slash for the backslash, G for a hex digit
    for a in &at {
        for (from, to) in [("u", "U"), ("{", "["), ("}", "]"), ("\\", "/"), ("1", "G"), ("F", "f")] {
            let t = a.replacen(from, to, 1);
            if t != *a {
                for post in ["", "}", "0041", "{41}"] {
                    f(idx, &format!("{}{}", t, post));
                    idx += 1;
                }
            }
        }
    }
    for b in ["\\U0041", "\\U{41}", "\\U{2FFFF}", "x\\U00e9", "\\u004G", "\\u{4g}", "\\u[41]", "/u0041", "\\\\U0041", "\\u\\U0041"] {
        f(idx, b);
        idx += 1;
    }
    // (4) non-ASCII characters in and around escape attempts
    let na = ['\\', 'u', '{', '}', '1', '\u{e9}', '\u{ffff}', '\u{10000}', '\u{2ffff}', '"'];
    let mut cur: Vec<String> = vec![String::new()];
    for _ in 0..4 {
        let mut nx = vec![];
        for s in &cur {
            for &c in &na {
                let mut t = s.clone();
                t.push(c);
                f(idx, &t);
                idx += 1;
                nx.push(t);
            }
        }
        cur = nx;
    }
}

fn c08_run(ctx: &Ctx, batch: usize, nb: usize, rep: &mut Report) {
    // parser + printing of each text viewed as a string of its own characters
    c08_texts(ctx.tier, &mut |i, text| {
        if i % nb != batch {
            return;
        }
        if i % 4096 == batch {
            beat();
        }
        rep.inc("evaluations");
        rep.inc("texts");
        let has_escape = {
            let t: Vec<char> = text.chars().collect();
            ref_parse(&t).len() != t.len()
        };
        if has_escape {
            rep.inc("nontrivial"); // texts in which at least one escape sequence is decoded
        }
        if let Some(m) = c08_parse_case(text) {
            rep.violation("C08", "c08", json!({"kind": "parse", "text": text}), m);
        }
        let s: Vec<u32> = text.chars().map(|c| c as u32).collect();
        rep.inc("evaluations");
        if let Some(m) = c08_print_case(&s) {
            rep.violation("C08", "c08", json!({"kind": "print", "s": s}), m);
        }
        if rep.samples.len() < 4 && has_escape && text.len() > 6 {
            let sj = json!({"text": text, "parsed": ref_parse(&text.chars().collect::<Vec<_>>())});
            rep.sample(|| sj);
        }
    });
    // every single code point
    for x in 0..=MAX_CHAR {
        if x as usize % nb != batch {
            continue;
        }
        rep.add("evaluations", 2);
        rep.inc("single_code_points");
        if let Some(m) = c08_print_case(&[x]) {
            rep.violation("C08", "c08", json!({"kind": "print", "s": [x]}), m);
        }
        if let Some(m) = c08_char_case(x) {
            rep.violation("C08", "c08", json!({"kind": "char", "x": x}), m);
        }
    }
    // strings over critical code points
    let crit: Vec<u32> = vec![0x22, 0x5c, 'u' as u32, '{' as u32, '}' as u32, '4' as u32, '1' as u32, 0x20, 0x7e, 0x1f, 0x7f, 0x80, 0xffff, 0x10000, MAX_CHAR, 0, 'F' as u32, 'a' as u32];
    let l = if ctx.tier == Tier::Thorough { 4 } else { 3 };
    for (i, s) in all_strings(&crit, l).iter().enumerate() {
        if i % nb != batch {
            continue;
        }
        rep.inc("evaluations");
        rep.inc("critical_strings");
        if let Some(m) = c08_print_case(s) {
            rep.violation("C08", "c08", json!({"kind": "print", "s": s}), m);
        }
    }
    // long strings: a critical tail right after n plain (1-, 2- or 4-byte) characters, n around every power of two up
    // to 4096 (buffered or block-wise printing and parsing)
    let tails: Vec<Vec<u32>> = vec![
        "\\u{41}".chars().map(|c| c as u32).collect(),
        "\\u0041".chars().map(|c| c as u32).collect(),
        vec![0x5c],
        vec![0x5c, 'u' as u32],
        vec![0x22],
        vec![0x22, 0x22],
        vec![0x7f],
        vec![MAX_CHAR],
    ];
    let mut k = 0usize;
    for pow in [16usize, 32, 64, 128, 256, 512, 1024, 2048, 4096] {
        for n in pow - 9..=pow + 2 {
            for fill in [0x61u32, 0xe9, 0x1F600] {
                if fill != 0x61 && n % 3 != 0 && pow < 1024 {
                    continue;
                }
                for tail in &tails {
                    k += 1;
                    if k % nb != batch {
                        continue;
                    }
                    let mut sv: Vec<u32> = vec![fill; n];
                    sv.extend(tail);
                    sv.push(0x62);
                    rep.add("evaluations", 2);
                    rep.inc("long_strings");
                    if let Some(m) = c08_print_case(&sv) {
                        let short: String = m.chars().take(300).collect();
                        rep.violation("C08", "c08", json!({"kind": "print", "s": sv}), format!("string of {} x {:#x} + {:?} + 'b': {}", n, fill, tail, short));
                    }
                    // the same characters as a literal text for the parser (where they are valid Rust characters)
                    if let Some(text) = sv.iter().map(|&c| char::from_u32(c)).collect::<Option<String>>() {
                        if let Some(m) = c08_parse_case(&text) {
                            let short: String = m.chars().take(300).collect();
                            rep.violation("C08", "c08", json!({"kind": "parse", "text": text}), format!("text of {} x {:#x} + {:?} + 'b': {}", n, fill, tail, short));
                        }
                    }
                }
            }
        }
    }
}

fn c08_replay(_ctx: &Ctx, c: &Value, rep: &mut Report) {
    rep.inc("evaluations");
    let m = match c["kind"].as_str().unwrap_or("") {
        "parse" => c08_parse_case(c["text"].as_str().unwrap_or("")),
        "print" => c08_print_case(&parr(&c["s"])),
        "char" => c08_char_case(c["x"].as_u64().unwrap_or(0) as u32),
        _ => None,
    };
    if let Some(m) = m {
        rep.violation("C08", "c08", c.clone(), m);
    }
}

fn c08_meta(ctx: &Ctx) -> Meta {
    Meta {
        level: "exploration",
        rule: "parser: every text of the families below is parsed and compared with an independent grammar-level reader; printer: every text viewed as a string of its own characters, every single code point 0..=0x2FFFF, and all short strings over 18 critical code points are printed, checked for printable ASCII / doubled quotes, and read back through parse_smt_literal; non-trivial = texts in which at least one escape sequence is decoded".into(),
        assumptions: vec!["the reference reader transcribes SMT-LIB 2.6: \\ud3d2d1d0 and \\u{d..} with 1-5 hex digits and value <= 0x2FFFF, every other character copied".into()],
        exhaustive: true,
        space: format!("all texts of length <= {} over {{\\,u,{{,}},0,2,3,F,g}}; escape-shaped family (6 prefixes x brace x 0-7 digits x 6 closers); pairs of consecutive escape attempts; texts of length <= 4 with non-ASCII characters; non-ASCII prefixes in front of every escape attempt; near misses of the special characters (U, brackets, slash, G); all 196608 single code points; strings of length <= {} over 18 critical code points", if ctx.tier == Tier::Thorough { 8 } else { 6 }, if ctx.tier == Tier::Thorough { 4 } else { 3 }),
    }
}

pub fn c08_engine() -> SimpleEngine {
    SimpleEngine { name: "c08", nb: |_| NB, run: c08_run, replay: c08_replay, meta: c08_meta, hang_violation: true }
}

// =============================================================================================
// C09

fn dec(v: u128, zeros: usize) -> Vec<u32> {
    let mut s = "0".repeat(zeros);
    s.push_str(&v.to_string());
    s.chars().map(|c| c as u32).collect()
}

/// str_to_int on one string: value if all digits and it fits, -1 if not all digits (or empty),
/// and a panic (any panic) when all digits but the value does not fit in i32
fn c09_to_int_case(s: &[u32]) -> Option<String> {
    let all_digits = !s.is_empty() && s.iter().all(|&c| (0x30..=0x39).contains(&c));
    let ms = mk(s);
    let got = guarded(|| str_to_int(&ms));
    if !all_digits {
        return match got {
            Ok(-1) => None,
            Ok(v) => Some(format!("str_to_int({:?}) = {} for a string that is not all digits (expected -1) [{} profile]", s, v, profile_name())),
            Err(e) => Some(format!("str_to_int({:?}) {} for a string that is not all digits (expected -1) [{} profile]", s, e, profile_name())),
        };
    }
    let mut val: u128 = 0;
    for &c in s {
        val = val.saturating_mul(10).saturating_add((c - 0x30) as u128);
    }
    if val <= i32::MAX as u128 {
        match got {
            Ok(v) if v as i128 == val as i128 => None,
            Ok(v) => Some(format!("str_to_int({:?}) = {}, expected {} [{} profile]", s, v, val, profile_name())),
            Err(e) => Some(format!("str_to_int({:?}) {} although the value {} fits [{} profile]", s, e, val, profile_name())),
        }
    } else {
        match got {
            Err(_) => None, // panics as documented
            Ok(v) => Some(format!("str_to_int({:?}) = {} although the value does not fit in i32: must panic, not return a wrong number [{} profile]", s, v, profile_name())),
        }
    }
}

fn c09_from_int_case(n: i32) -> Option<String> {
    let r = guarded(|| {
        let s = str_from_int(n);
        let exp: Vec<u32> = if n >= 0 { n.to_string().chars().map(|c| c as u32).collect() } else { vec![] };
        if codes(&s) != exp {
            return Some(format!("str_from_int({}) = {:?}", n, codes(&s)));
        }
        if n >= 0 && str_to_int(&s) != n {
            return Some(format!("str_to_int(str_from_int({})) = {}", n, str_to_int(&s)));
        }
        None
    });
    match r {
        Ok(m) => m,
        Err(e) => Some(format!("str_from_int/str_to_int({}) {}", n, e)),
    }
}

fn c09_code_case(x: i32) -> Option<String> {
    let r = guarded(|| {
        let s = str_from_code(x);
        if x >= 0 && x as u32 <= MAX_CHAR {
            if codes(&s) != vec![x as u32] {
                return Some(format!("str_from_code({:#x}) = {:?}", x, codes(&s)));
            }
            if str_to_code(&s) != x {
                return Some(format!("str_to_code(str_from_code({:#x})) = {}", x, str_to_code(&s)));
            }
            let d = (0x30..=0x39).contains(&x);
            if str_is_digit(&s) != d {
                return Some(format!("str_is_digit([{:#x}]) = {}", x, str_is_digit(&s)));
            }
        } else if !s.is_empty() {
            return Some(format!("str_from_code({}) = {:?}, expected the empty string", x, codes(&s)));
        }
        None
    });
    match r {
        Ok(m) => m,
        Err(e) => Some(format!("code conversion of {} {}", x, e)),
    }
}

fn c09_order_case(a: &[u32], b: &[u32]) -> Option<String> {
    let (ma, mb) = (mk(a), mk(b));
    let r = guarded(|| (str_lt(&ma, &mb), str_le(&ma, &mb)));
    match r {
        Err(e) => Some(format!("str_lt/str_le({:?}, {:?}) {}", a, b, e)),
        Ok((lt, le)) => {
            if lt != (a < b) {
                Some(format!("str_lt({:?}, {:?}) = {}, lexicographic order says {}", a, b, lt, a < b))
            } else if le != (a <= b) {
                Some(format!("str_le({:?}, {:?}) = {}, lexicographic order says {}", a, b, le, a <= b))
            } else {
                None
            }
        }
    }
}

fn c09_multi_case(s: &[u32]) -> Option<String> {
    // to_code / is_digit on strings that are not single characters
    let ms = mk(s);
    let r = guarded(|| (str_to_code(&ms), str_is_digit(&ms)));
    match r {
        Err(e) => Some(format!("str_to_code/str_is_digit({:?}) {}", s, e)),
        Ok((c, d)) => {
            let ec = if s.len() == 1 { s[0] as i32 } else { -1 };
            let ed = s.len() == 1 && (0x30..=0x39).contains(&s[0]);
            if c != ec {
                Some(format!("str_to_code({:?}) = {}, expected {}", s, c, ec))
            } else if d != ed {
                Some(format!("str_is_digit({:?}) = {}, expected {}", s, d, ed))
            } else {
                None
            }
        }
    }
}

fn c09_viol(rep: &mut Report, case: Value, m: Option<String>) {
    unpublish_case();
    rep.inc("evaluations");
    if let Some(m) = m {
        rep.violation("C09", "c09", case, m);
    }
}

fn c09_run(ctx: &Ctx, batch: usize, nb: usize, rep: &mut Report) {
    let th = ctx.tier == Tier::Thorough;
    let mut item = 0usize;
    let mut mine = |item: &mut usize| -> bool {
        *item += 1;
        *item % nb == batch
    };
    // order
    let ls = all_strings(&[0, 1, MAX_CHAR], if th { 5 } else { 4 });
    for a in &ls {
        if !mine(&mut item) {
            continue;
        }
        beat();
        for b in &ls {
            if a != b && (a.starts_with(b) || b.starts_with(a)) {
                rep.inc("nontrivial"); // ordered pairs where one string is a proper prefix of the other
            }
            c09_viol(rep, pubj(json!({"kind": "order", "a": a, "b": b})), c09_order_case(a, b));
        }
    }
    // order on long strings: a^i b^j and a^i b a^j up to length 20 (block-wise comparisons, differing block counts)
    let mut long: Vec<Vec<u32>> = vec![];
    let lmax = if th { 26 } else { 20 };
    for i in 0..=lmax {
        for j in 0..=(lmax - i) {
            let mut v = vec![0x61u32; i];
            v.extend(vec![0x62u32; j]);
            long.push(v);
            if j >= 1 {
                let mut w = vec![0x61u32; i];
                w.push(0x7a);
                w.extend(vec![0x61u32; j - 1]);
                long.push(w);
            }
        }
    }
    long.sort();
    long.dedup();
    for a in &long {
        if !mine(&mut item) {
            continue;
        }
        beat();
        for b in &long {
            if a != b && (a.starts_with(b) || b.starts_with(a)) {
                rep.inc("nontrivial");
            }
            c09_viol(rep, pubj(json!({"kind": "order", "a": a, "b": b})), c09_order_case(a, b));
        }
    }
    // order on long strings that differ in two (or three) places: every transposition of a 16..34-character string
    // against the string itself and against another transposition (differences that cancel in block-wise folds)
    for len in [15usize, 16, 17, 31, 32, 33, 34] {
        let base: Vec<u32> = (0..len as u32).map(|i| 0x61 + (i * 7) % 5).collect();
        let mut vars: Vec<Vec<u32>> = vec![base.clone()];
        for i in 0..len {
            for j in i + 1..len {
                if base[i] != base[j] && (j - i <= 3 || j % 8 == 7 || i % 16 == 0) {
                    let mut v = base.clone();
                    v.swap(i, j);
                    vars.push(v);
                }
            }
        }
        for (ai, a) in vars.iter().enumerate() {
            if !mine(&mut item) {
                continue;
            }
            beat();
            for (bi, b) in vars.iter().enumerate() {
                if ai == 0 || bi == 0 || (ai + bi) % 11 == 0 {
                    rep.inc("transposition_pairs");
                    c09_viol(rep, pubj(json!({"kind": "order", "a": a, "b": b})), c09_order_case(a, b));
                }
            }
        }
    }
    // to_int: what lenient number parsers accept (signs, blanks, separators, other scripts' digits) must give -1
    for s in all_strings(&[0x30, 0x37, 0x2b, 0x2d, 0x20, 0x5f, 0x2e, 0x660, 0xff11], 4) {
        if !mine(&mut item) {
            continue;
        }
        c09_viol(rep, pubj(json!({"kind": "to_int", "s": s})), c09_to_int_case(&s));
    }
    for body in ["7", "42", "2147483647", "2147483648", "3000000000"] {
        for pre in ["+", "-", " ", "+0", "0+", "00000000000000000000+"] {
            for suf in ["", " ", "+", "_0"] {
                if !mine(&mut item) {
                    continue;
                }
                let s: Vec<u32> = format!("{}{}{}", pre, body, suf).chars().map(|c| c as u32).collect();
                c09_viol(rep, pubj(json!({"kind": "to_int", "s": s})), c09_to_int_case(&s));
            }
        }
    }
    // to_int: long runs of zeros, alone and in front of small, limit and overflowing values
    for k in 1..=45usize {
        for tail in ["", "1", "9", "2147483647", "2147483648", "99999999999"] {
            if !mine(&mut item) {
                continue;
            }
            let mut s: Vec<u32> = vec![0x30; k];
            s.extend(tail.chars().map(|c| c as u32));
            c09_viol(rep, pubj(json!({"kind": "to_int", "s": s})), c09_to_int_case(&s));
        }
    }
    // to_int: mixed strings (0x130, 0x2030, 0x10039: characters whose low byte is an ASCII digit)
    for s in all_strings(&[0x30, 0x39, 0x2f, 0x3a, 0x61, 0x130, 0x2030, 0x10039], if th { 5 } else { 4 }) {
        if !mine(&mut item) {
            continue;
        }
        c09_viol(rep, pubj(json!({"kind": "to_int", "s": s})), c09_to_int_case(&s));
    }
    for s in all_strings(&[0x30, 0x39, 0x2f, 0x3a, 0x61], if th { 6 } else { 4 }) {
        if !mine(&mut item) {
            continue;
        }
        c09_viol(rep, pubj(json!({"kind": "to_int", "s": s})), c09_to_int_case(&s));
    }
    // to_int: digit strings (those of length >= 10 mostly overflow)
    let dl = if th { 11 } else { 9 };
    let mut overflow_cases = 0u64;
    for s in all_strings(&[0x30, 0x32, 0x34, 0x39], dl) {
        if !mine(&mut item) {
            continue;
        }
        if item % 2048 == batch {
            beat();
        }
        c09_viol(rep, pubj(json!({"kind": "to_int", "s": s})), c09_to_int_case(&s));
    }
    // to_int: around the limits
    let mut vals: Vec<u128> = vec![];
    let p31: u128 = 1 << 31;
    let p32: u128 = 1 << 32;
    for d in 0..=80u128 {
        vals.push(p31 - 40 + d);
    }
    for d in 0..=6u128 {
        vals.push(p32 - 3 + d);
        vals.push(2 * p32 - 3 + d);
    }
    for k in 1..=60u128 {
        vals.push(k * 1_000_000_000);
        vals.push(k * 1_000_000_000 - 1);
        vals.push(k * 715_827_883); // multiples that wrap to small positive numbers modulo 2^32
    }
    for e in 10..=25u32 {
        vals.push(10u128.pow(e));
        vals.push(10u128.pow(e) + 7);
    }
    // values that wrap to small numbers modulo 2^64 (20 digits) and modulo 2^63, 2^128 would not fit u128 sums: stop at 2^127
    let p64: u128 = 1 << 64;
    for k in 1..=6u128 {
        for d in [0u128, 1, 982, (1 << 31) - 1, 1 << 31] {
            vals.push(k * p64 + d);
            vals.push(k * (p64 / 2) + d);
        }
    }
    vals.push(p64 - 1);
    vals.push((1u128 << 127) + 12345);
    vals.push(99_999_999_999_999_999_999);
    vals.push(100_000_000_000_000_000_000);
    for k in 0..64u128 {
        vals.push(p31 + k * 33_554_432 + 5); // spread over [2^31, 2^32)
        vals.push(p32 + k * 67_108_864 + 1);
    }
    for &v in &vals {
        for z in 0..=2 {
            if !mine(&mut item) {
                continue;
            }
            let s = dec(v, z);
            if v > i32::MAX as u128 {
                overflow_cases += 1;
            }
            c09_viol(rep, pubj(json!({"kind": "to_int", "s": s})), c09_to_int_case(&s));
            // a non-digit anywhere makes the result -1, however long the digit prefix is
            for (pos, ch) in [(0usize, 0x61u32), (s.len(), 0x61), (s.len() / 2, 0x2f), (s.len(), 0x3a)] {
                let mut t = s.clone();
                t.insert(pos, ch);
                c09_viol(rep, pubj(json!({"kind": "to_int", "s": t})), c09_to_int_case(&t));
            }
        }
    }
    rep.add("to_int_overflow_inputs", overflow_cases);
    // from_int / to_int round trip
    let lim = if th { 20_000_000 } else { 300_000 };
    let mut ns: Vec<i32> = vec![];
    for k in 0..=30 {
        ns.extend([(1i64 << k) as i32, ((1i64 << k) - 1) as i32, ((1i64 << k) + 1) as i32]);
    }
    for e in 0..=9u32 {
        let p = 10i64.pow(e);
        for d in 1..=9i64 {
            for x in [d * p - 1, d * p, d * p + 1] {
                if x <= i32::MAX as i64 {
                    ns.push(x as i32);
                }
            }
        }
    }
    for d in 0..=40 {
        ns.push(i32::MAX - d);
        ns.push(-d);
        ns.push(i32::MIN + d);
    }
    for n in (0..lim).chain(ns.into_iter()) {
        if !mine(&mut item) {
            continue;
        }
        if item % 4096 == batch {
            beat();
        }
        c09_viol(rep, pubj(json!({"kind": "from_int", "n": n})), c09_from_int_case(n));
    }
    // codes: every code point and values outside
    for x in (0..=MAX_CHAR as i32 + 40).chain([-1, -2, i32::MIN, i32::MAX, 0x10FFFF, 0x110000, 0xD800, 0xDFFF].into_iter()) {
        if !mine(&mut item) {
            continue;
        }
        c09_viol(rep, pubj(json!({"kind": "code", "x": x})), c09_code_case(x));
    }
    for s in all_strings(&[0x30, 0x39, 0x2f, 0x3a, 0x35, 0, MAX_CHAR, 0x660], 2) {
        if !mine(&mut item) {
            continue;
        }
        c09_viol(rep, pubj(json!({"kind": "multi", "s": s})), c09_multi_case(&s));
    }
    if batch == 0 {
        rep.sample(|| json!({"kind": "to_int", "s": dec(5_000_000_000, 0), "expected": "panic (does not fit in i32)"}));
        rep.sample(|| json!({"kind": "order", "a": [0, 1], "b": [0, 1, 0]}));
        rep.sample(|| json!({"kind": "code", "x": 0xD800}));
    }
}

fn c09_replay(_ctx: &Ctx, c: &Value, rep: &mut Report) {
    let m = match c["kind"].as_str().unwrap_or("") {
        "order" => c09_order_case(&parr(&c["a"]), &parr(&c["b"])),
        "to_int" => c09_to_int_case(&parr(&c["s"])),
        "from_int" => c09_from_int_case(c["n"].as_i64().unwrap_or(0) as i32),
        "code" => c09_code_case(c["x"].as_i64().unwrap_or(0) as i32),
        "multi" => c09_multi_case(&parr(&c["s"])),
        _ => None,
    };
    c09_viol(rep, c.clone(), m);
}

fn c09_meta(ctx: &Ctx) -> Meta {
    let th = ctx.tier == Tier::Thorough;
    Meta {
        level: "exploration",
        rule: "every listed argument is evaluated once in this build profile (the check is run in the release profile, overflow checks off, and in the dev profile, overflow checks on) and compared with slice comparison / u128 arithmetic; for str_to_int of an all-digit string whose value exceeds i32::MAX the only accepted outcome is a panic; non-trivial = ordered string pairs where one is a proper prefix of the other".into(),
        assumptions: vec!["lexicographic order of Vec<u32> slices is the SMT-LIB order on code-point sequences".into(), "a panic of any kind counts as 'panics as documented' for an out-of-range str_to_int".into()],
        exhaustive: true,
        space: format!("str_lt/str_le: all ordered pairs of strings of length <= {} over {{0,1,0x2FFFF}} and all ordered pairs of the strings a^i b^j, a^i z a^j of length <= 20 (thorough 26); str_to_int: all strings of length <= {} over {{'0','9','/',':','a'}}, all digit strings of length <= {} over {{0,2,4,9}}, decimal forms (0-2 leading zeros, and with a non-digit inserted) of values around 2^31, 2^32, 2^33, k*10^9, 10^10..10^25 and a spread over [2^31,2^32); str_from_int: all n < {} plus powers of 2 and 10 +-1, i32 limits, negatives; codes: all x in [0,0x2FFFF+40] and out-of-range values; str_to_code/str_is_digit on strings of length <= 2 over 8 characters", if th { 5 } else { 4 }, if th { 6 } else { 4 }, if th { 11 } else { 9 }, if th { 20_000_000 } else { 300_000 }),
    }
}

pub fn c09_engine() -> SimpleEngine {
    SimpleEngine { name: "c09", nb: |_| NB, run: c09_run, replay: c09_replay, meta: c09_meta, hang_violation: true }
}

// =============================================================================================
// C17

/// own scan of the code points (independent of the crate's is_good), cross-checked with is_good / good_string /
/// good_char, which must all state the same fact
fn c17_scan(s: &SmtString, what: &str) -> Option<String> {
    let bad = s.iter().copied().find(|&c| c > MAX_CHAR);
    let bad_ref = s.as_ref().iter().copied().find(|&c| c > MAX_CHAR);
    if let Some(c) = bad.or(bad_ref) {
        return Some(format!("{} produced {:?}, which contains the code point {:#x} above 0x2FFFF", what, codes(s), c));
    }
    if !s.is_good() || !good_string(s.as_ref()) || s.iter().any(|&c| !good_char(c)) {
        return Some(format!("{}: every code point of {:?} is in [0,0x2FFFF] but is_good() = {}, good_string = {}", what, codes(s), s.is_good(), good_string(s.as_ref())));
    }
    None
}

fn c17_usable(s: &SmtString, what: &str) -> Option<String> {
    if let Some(m) = c17_scan(s, what) {
        return Some(m);
    }
    // usable with the rest of the crate: turn it into a regular expression and match it
    let s2 = s.clone();
    let r = guarded(move || {
        let mut re = ReManager::new();
        let e = re.str(&s2);
        re.str_in_re(&s2, e)
    });
    match r {
        Ok(true) => None,
        Ok(false) => Some(format!("{}: the string {:?} is not a member of str.to_re of itself", what, codes(s))),
        Err(e) => Some(format!("{}: ReManager::str on the result {:?} {}", what, codes(s), e)),
    }
}

fn c17_text_case(kind: &str, text: &str) -> Option<String> {
    let t = text.to_string();
    let r = guarded(|| match kind {
        "str" => SmtString::from(t.as_str()),
        "string" => SmtString::from(t.clone()),
        "char" => SmtString::from(t.chars().next().unwrap_or('a')),
        _ => parse_smt_literal(&t),
    });
    match r {
        Err(e) => Some(format!("{} constructor on {:?} {}", kind, text, e)),
        Ok(s) => {
            if let Some(m) = c17_usable(&s, &format!("{} constructor on {:?}", kind, text)) {
                return Some(m);
            }
            if kind != "parse" {
                // text made of SMT-LIB characters only is kept unchanged; what replaces (or drops) other characters
                // is not prescribed by the statement
                let src: Vec<u32> = if kind == "char" { text.chars().take(1).map(|c| c as u32).collect() } else { text.chars().map(|c| c as u32).collect() };
                let got = codes(&s);
                if src.iter().all(|&a| a <= MAX_CHAR) && got != src {
                    return Some(format!("{} constructor on {:?} = {:?}: valid characters were not kept unchanged", kind, text, got));
                }
            }
            None
        }
    }
}

fn c17_ints_case(kind: &str, v: &[u32]) -> Option<String> {
    let vv = v.to_vec();
    let r = guarded(|| match kind {
        "slice" => SmtString::from(&vv[..]),
        "vec" => SmtString::from(vv.clone()),
        "array" => match vv.len() {
            0 => SmtString::from(&[0u32; 0]),
            1 => SmtString::from(&[vv[0]]),
            2 => SmtString::from(&[vv[0], vv[1]]),
            _ => SmtString::from(&[vv[0], vv[1], vv[2]]),
        },
        _ => SmtString::from(vv[0]),
    });
    match r {
        Err(e) => Some(format!("{} constructor on {:?} {}", kind, v, e)),
        Ok(s) => {
            let n = if kind == "u32" { 1 } else if kind == "array" { v.len().min(3) } else { v.len() };
            let exp: Vec<u32> = v.iter().take(n).map(|&x| if x <= MAX_CHAR { x } else { 0xFFFD }).collect();
            if codes(&s) != exp {
                return Some(format!("{} constructor on {:?} = {:?}, expected {:?} (values above 0x2FFFF replaced by 0xFFFD, others unchanged)", kind, v, codes(&s), exp));
            }
            c17_usable(&s, &format!("{} constructor on {:?}", kind, v))
        }
    }
}

/// one application of a string operation to good strings; the result must be good
fn c17_op_case(op: &str, a: &[u32], b: &[u32], c: &[u32], i: i32, j: i32) -> Option<String> {
    let (ma, mb, mc) = (mk(a), mk(b), mk(c));
    let opn = op.to_string();
    let r = guarded(move || -> SmtString {
        match opn.as_str() {
            "concat" => str_concat(&ma, &mb),
            "at" => str_at(&ma, i),
            "substr" => str_substr(&ma, i, j),
            "replace" => str_replace(&ma, &mb, &mc),
            "replace_all" => str_replace_all(&ma, &mb, &mc),
            "from_int" => str_from_int(i),
            "from_code" => str_from_code(i),
            "replace_re" | "replace_re_all" => {
                let r = c17_regex(j);
                if opn == "replace_re" {
                    wr::str_replace_re(&ma, r, &mc)
                } else {
                    wr::str_replace_re_all(&ma, r, &mc)
                }
            }
            _ => EMPTY,
        }
    });
    match r {
        Err(e) => Some(format!("{}({:?}, {:?}, {:?}, {}, {}) {}", op, a, b, c, i, j, e)),
        Ok(s) => c17_scan(&s, &format!("{}({:?}, {:?}, {:?}, {}, {})", op, a, b, c, i, j)),
    }
}

const C17_NREGEX: i32 = 8;
fn c17_regex(k: i32) -> aws_smt_strings::regular_expressions::RegLan {
    let a = wr::str_to_re(&SmtString::from('a'));
    match k {
        0 => wr::re_star(wr::re_allchar()),
        1 => wr::re_plus(a),
        2 => wr::re_comp(wr::re_none()),
        3 => wr::re_allchar(),
        4 => wr::re_range(&SmtString::from(0x10000u32), &SmtString::from(MAX_CHAR)),
        5 => wr::re_comp(a),
        6 => wr::re_opt(wr::re_range(&SmtString::from(0u32), &SmtString::from(0xFFFDu32))),
        _ => wr::re_concat(wr::re_allchar(), wr::re_allchar()),
    }
}

fn c17_viol(rep: &mut Report, case: Value, m: Option<String>) {
    unpublish_case();
    rep.inc("evaluations");
    if let Some(m) = m {
        rep.violation("C17", "c17", case, m);
    }
}

fn c17_run(ctx: &Ctx, batch: usize, nb: usize, rep: &mut Report) {
    let th = ctx.tier == Tier::Thorough;
    let mut item = 0usize;
    let mut mine = |item: &mut usize| -> bool {
        *item += 1;
        *item % nb == batch
    };
    // constructors from Rust text
    let scal: Vec<char> = vec!['\u{0}', 'a', '\\', '\u{d7ff}', '\u{e000}', '\u{fffd}', '\u{ffff}', '\u{10000}', '\u{2ffff}', '\u{30000}', '\u{3ffff}', '\u{e0000}', '\u{10ffff}'];
    let mut texts: Vec<String> = vec![String::new()];
    let l = if th { 3 } else { 2 };
    let mut cur = vec![String::new()];
    for _ in 0..l {
        let mut nx = vec![];
        for s in &cur {
            for &c in &scal {
                let mut t = s.clone();
                t.push(c);
                nx.push(t);
            }
        }
        texts.extend(nx.iter().cloned());
        cur = nx;
    }
    // escape attempts that mention or combine with out-of-range characters and values
    for a in ["\\u{30000}", "\\u{2FFFF}", "\\u{FFFFF}", "\\uFFFF", "\\u3G\\u0000", "\\u12\\u0041", "\\u{3\\u{0000}", "\\u{2FFF\\u{F}", "\\u2FFF\\u{F0000}", "\\u{3}0000", "\\uD800", "\\u{10FFFF}"] {
        for pre in ["", "\u{30000}", "\\u", "\\u3", "\\u{F"] {
            for post in ["", "\u{10ffff}", "}", "0"] {
                texts.push(format!("{}{}{}", pre, a, post));
            }
        }
    }
    for pre in ["\\", "\\u", "\\u{", "\\u{1", "\\u{12", "\\u{1234", "\\u{12345", "\\u1", "\\u12", "\\u123", "\\u{ACG", "\\u{3G", "x\\u{F"] {
        for big in ['\u{30000}', '\u{e0041}', '\u{10ffff}', '\u{3ffff}'] {
            for post in ["", "}", "0", "\\u0041", "\\u0000", "\\u{0}"] {
                texts.push(format!("{}{}{}", pre, big, post));
                texts.push(format!("{}{}{}", pre, post, big));
            }
        }
        for post in ["\\u0041", "\\u0000", "\\uFFFF", "\\u{0000}", " and then \\u0041"] {
            texts.push(format!("{}{}", pre, post));
        }
    }
    for t in &texts {
        if !mine(&mut item) {
            continue;
        }
        if t.chars().any(|c| c as u32 > MAX_CHAR) {
            rep.inc("nontrivial"); // texts containing a scalar value above U+2FFFF
        }
        for kind in ["str", "string", "parse"] {
            c17_viol(rep, pubj(json!({"kind": kind, "text": t})), c17_text_case(kind, t));
        }
        if t.chars().count() == 1 {
            c17_viol(rep, pubj(json!({"kind": "char", "text": t})), c17_text_case("char", t));
        }
    }
    // every literal text of the C08 families: whatever the parser does with it, the result is well formed
    c08_texts(ctx.tier, &mut |i, text| {
        if i % nb != batch {
            return;
        }
        rep.inc("evaluations");
        rep.inc("literal_texts");
        publish_case(|| json!({"kind": "parse", "text": text}));
        match guarded(|| parse_smt_literal(text)) {
            Err(e) => rep.violation("C17", "c17", json!({"kind": "parse", "text": text}), format!("parse_smt_literal({:?}) {}", text, e)),
            Ok(s) => {
                if let Some(m) = c17_scan(&s, &format!("parse_smt_literal({:?})", text)) {
                    rep.violation("C17", "c17", json!({"kind": "parse", "text": text}), m);
                }
            }
        }
    });
    // every Rust char above the limit, at a stride, and every char below it at a coarser stride
    let mut x = 0u32;
    while x <= 0x10FFFF {
        if let Some(c) = char::from_u32(x) {
            if mine(&mut item) {
                let t = c.to_string();
                c17_viol(rep, pubj(json!({"kind": "char", "text": t})), c17_text_case("char", &t));
                c17_viol(rep, pubj(json!({"kind": "str", "text": t})), c17_text_case("str", &t));
            }
        }
        x += if th { 97 } else { 1009 };
    }
    // integer constructors
    let ints: Vec<u32> = vec![0, 0x61, MAX_CHAR, 0x30000, 0x3FFFF, 0x40000, 0xFFFD, 0x10FFFF, 0x110000, u32::MAX, 0xD800, 0xDFFF];
    for v in all_strings(&ints, 3) {
        if !mine(&mut item) {
            continue;
        }
        if v.iter().any(|&x| x > MAX_CHAR) {
            rep.inc("nontrivial");
        }
        for kind in ["slice", "vec", "array"] {
            c17_viol(rep, pubj(json!({"kind": kind, "v": v})), c17_ints_case(kind, &v));
        }
        if v.len() == 1 {
            c17_viol(rep, pubj(json!({"kind": "u32", "v": v})), c17_ints_case("u32", &v));
        }
    }
    // long vectors with one (or two) out-of-range values at every position (block-wise scans)
    for len in [7usize, 8, 9, 15, 16, 17, 24, 33] {
        for pos in 0..len {
            for bad in [0x30000u32, 0x123456, u32::MAX] {
                if !mine(&mut item) {
                    continue;
                }
                let mut v: Vec<u32> = (0..len as u32).map(|i| 0x61 + i).collect();
                v[pos] = bad;
                rep.inc("nontrivial");
                for kind in ["slice", "vec"] {
                    c17_viol(rep, pubj(json!({"kind": kind, "v": v})), c17_ints_case(kind, &v));
                }
                let mut w = v.clone();
                w[len - 1 - pos] = 0x2FFFF + 1 + pos as u32;
                c17_viol(rep, pubj(json!({"kind": "vec", "v": w})), c17_ints_case("vec", &w));
            }
        }
    }
    // every integer in bands around the limit, through the vector fast path
    for x in (MAX_CHAR - 40..=MAX_CHAR + 40).chain(0x3FFF0..=0x40010).chain((0x30000..0x200000).step_by(if th { 251 } else { 4099 })) {
        if !mine(&mut item) {
            continue;
        }
        c17_viol(rep, pubj(json!({"kind": "vec", "v": [x]})), c17_ints_case("vec", &[x]));
        c17_viol(rep, pubj(json!({"kind": "vec", "v": [0x61, x]})), c17_ints_case("vec", &[0x61, x]));
        c17_viol(rep, pubj(json!({"kind": "u32", "v": [x]})), c17_ints_case("u32", &[x]));
    }
    // closure: operations applied to good strings; the strings produced in one round are the operands of the next
    let mut pool: Vec<Vec<u32>> = all_strings(&[0x61, 0xFFFD, MAX_CHAR], 2);
    pool.push(vec![0x10000, 0x61, 0]);
    let idx = [-1, 0, 1, 2, 0xFFFD, 0x2FFFF, 0x30000, i32::MAX];
    let rounds = if th { 3 } else { 2 };
    let mut seen: HashSet<Vec<u32>> = pool.iter().cloned().collect();
    for _round in 0..rounds {
        let mut next: Vec<Vec<u32>> = vec![];
        for (ia, a) in pool.iter().enumerate() {
            for (ib, b) in pool.iter().enumerate() {
                // the replacement: another string of the pool (varying with the pair), not the pattern itself
                let c = &pool[(ia * 7 + ib * 3 + 1) % pool.len()];
                let own = mine(&mut item);
                if own {
                    beat();
                    rep.inc("states");
                }
                let mut ops: Vec<(&str, i32, i32)> = vec![("concat", 0, 0), ("replace", 0, 0), ("replace_all", 0, 0)];
                for &i in &idx {
                    ops.push(("at", i, 0));
                    ops.push(("from_int", i, 0));
                    ops.push(("from_code", i, 0));
                    for &j in &idx {
                        ops.push(("substr", i, j));
                    }
                }
                for k in 0..C17_NREGEX {
                    ops.push(("replace_re", 0, k));
                    ops.push(("replace_re_all", 0, k));
                }
                for (op, i, j) in ops {
                    if own {
                        rep.inc("transitions");
                        rep.inc("impl_traces");
                        c17_viol(rep, pubj(json!({"kind": "op", "op": op, "a": a, "b": b, "c": c, "i": i, "j": j})), c17_op_case(op, a, b, c, i, j));
                    }
                    // successor states (computed identically in every batch, so that all batches enumerate the same space)
                    if matches!(op, "concat" | "replace" | "substr" | "from_code" | "at") {
                        if let Ok(s) = guarded(|| match op {
                            "concat" => str_concat(&mk(a), &mk(b)),
                            "replace" => str_replace(&mk(a), &mk(b), &mk(c)),
                            "substr" => str_substr(&mk(a), i, j),
                            "from_code" => str_from_code(i),
                            _ => str_at(&mk(a), i),
                        }) {
                            let v = codes(&s);
                            if v.len() <= 4 && s.is_good() && seen.insert(v.clone()) {
                                next.push(v);
                            }
                        }
                    }
                }
            }
        }
        next.truncate(40);
        pool = next;
        if pool.is_empty() {
            break;
        }
    }
    // get_string of a few expressions over high characters
    if batch == 0 {
        let r = guarded(|| {
            let mut re = ReManager::new();
            let hi = re.range(0x10000, MAX_CHAR);
            let top = re.char(MAX_CHAR);
            let c = re.complement(top);
            let e1 = re.concat(hi, top);
            let e2 = re.inter(c, hi);
            let mut out = vec![];
            for e in [hi, top, e1, e2, c] {
                if let Some(s) = re.get_string(e) {
                    out.push(s);
                }
            }
            out
        });
        match r {
            Ok(v) => {
                for s in v {
                    c17_viol(rep, pubj(json!({"kind": "get_string"})), c17_usable(&s, "get_string"));
                }
            }
            Err(e) => c17_viol(rep, pubj(json!({"kind": "get_string"})), Some(format!("get_string {}", e))),
        }
        rep.sample(|| json!({"kind": "str", "text": "\u{30000}a", "expected": "no code point above 0x2FFFF in the result; 'a' unchanged"}));
        rep.sample(|| json!({"kind": "vec", "v": [0x61, 0x30000], "expected": [0x61, 0xFFFD]}));
        rep.sample(|| json!({"kind": "parse", "text": "\\u3G\\u0000"}));
    }
}

fn c17_replay(_ctx: &Ctx, c: &Value, rep: &mut Report) {
    let kind = c["kind"].as_str().unwrap_or("");
    let m = match kind {
        "str" | "string" | "parse" | "char" => c17_text_case(kind, c["text"].as_str().unwrap_or("")),
        "slice" | "vec" | "array" | "u32" => c17_ints_case(kind, &parr(&c["v"])),
        "op" => c17_op_case(c["op"].as_str().unwrap_or(""), &parr(&c["a"]), &parr(&c["b"]), &parr(&c["c"]), c["i"].as_i64().unwrap_or(0) as i32, c["j"].as_i64().unwrap_or(0) as i32),
        _ => None,
    };
    c17_viol(rep, c.clone(), m);
}

fn c17_meta(_ctx: &Ctx) -> Meta {
    Meta {
        level: "exploration",
        rule: "every constructor (From<&str>, From<String>, From<char>, From<u32>, From<&[u32]>, From<&[u32;N]>, From<Vec<u32>>, parse_smt_literal) is applied to every listed input; the result must satisfy is_good(), keep every valid input character unchanged (integer constructors: replace values above 0x2FFFF by 0xFFFD), and ReManager::str / str_in_re must accept it without panicking; closure: every str_* and regex-replace operation applied to all pairs of a pool of good strings, for 1-2 rounds (states = argument pairs, transitions = operation applications); non-trivial = inputs containing a value above 0x2FFFF".into(),
        assumptions: vec!["what happens to Rust characters above U+2FFFF is not prescribed: only 'nothing above 0x2FFFF in the result, and text without such characters is kept unchanged' is required of the &str/String/char constructors".into()],
        exhaustive: true,
        space: "texts of length <= 2 (thorough 3) over 13 scalar values incl. U+30000, U+3FFFF, U+E0000, U+10FFFF; escape attempts combined with out-of-range characters (a large character after every kind of escape prefix); all literal texts of the C08 families; Rust chars at a stride over the whole scalar range; integer sequences of length <= 3 over 10 values incl. 0x30000, 0x3FFFF, 0x40000, u32::MAX; vectors of length 7-33 with an out-of-range value at every position; every integer in bands around 0x2FFFF and 0x3FFFF..0x40010 through the Vec fast path; closure of the string operations over a pool of good strings".into(),
    }
}

pub fn c17_engine() -> SimpleEngine {
    SimpleEngine { name: "c17", nb: |_| NB, run: c17_run, replay: c17_replay, meta: c17_meta, hang_violation: true }
}
