//! The regular-expression engine: every program of the enumerated families is run on the real
//! code and compared with the reference DFA of the *program* by explicit-state search of the
//! product (implementation transition system x reference automaton).
//!
//! One engine serves C01, C02, C05, C18, C19, the compiled-automaton parts of C04 and C14, and C03;
//! only the oracle of the property being checked is enabled in a run.

use crate::infra::*;
use crate::pool::*;
use crate::prog::*;
use crate::refdfa::Dfa;
use crate::universe::Universe;
use aws_smt_strings::automata::Automaton;
use aws_smt_strings::character_sets::{CharSet, ClassId};
use aws_smt_strings::errors::Error;
use aws_smt_strings::regular_expressions::{ReManager, RegLan, RE};
use aws_smt_strings::smt_regular_expressions as wr;
use aws_smt_strings::smt_strings::{SmtString, MAX_CHAR};
use serde_json::{json, Value};
use std::collections::{HashMap, HashSet};
use std::sync::Arc;

pub const CHUNK: usize = 2000;
pub const PAIR_CAP: usize = 20_000;

#[derive(Clone, Copy, PartialEq, Eq, Debug)]
pub enum Kind {
    C01,
    C02,
    C03,
    C04,
    C05,
    C14,
    C18,
    C19,
}

impl Kind {
    pub fn id(&self) -> &'static str {
        match self {
            Kind::C01 => "C01",
            Kind::C02 => "C02",
            Kind::C03 => "C03",
            Kind::C04 => "C04",
            Kind::C05 => "C05",
            Kind::C14 => "C14",
            Kind::C18 => "C18",
            Kind::C19 => "C19",
        }
    }
    pub fn from_id(s: &str) -> Option<Kind> {
        Some(match s {
            "C01" => Kind::C01,
            "C02" => Kind::C02,
            "C03" => Kind::C03,
            "C04" => Kind::C04,
            "C05" => Kind::C05,
            "C14" => Kind::C14,
            "C18" => Kind::C18,
            "C19" => Kind::C19,
            _ => return None,
        })
    }
}

#[inline]
pub fn ptr(t: &RE) -> usize {
    t as *const RE as usize
}
#[inline]
pub fn as_re(p: usize) -> RegLan {
    // terms are leaked boxes (&'static RE), never freed
    unsafe { &*(p as *const RE) }
}

// ---------------------------------------------------------------------------------------------
// product exploration

pub struct Prod {
    /// (implementation state, reference state, parent node, character from parent)
    pub nodes: Vec<(usize, usize, u32, u32)>,
    pub bad: Option<usize>,
    pub capped: bool,
    pub transitions: u64,
}

impl Prod {
    pub fn word(&self, mut i: usize) -> Vec<u32> {
        let mut w = vec![];
        while i != 0 {
            let (_, _, p, c) = self.nodes[i];
            w.push(c);
            i = p as usize;
        }
        w.reverse();
        w
    }
}

/// BFS over pairs (implementation state, reference state) from (s0, q0), stepping both on every
/// representative character; `acc(s) == rf.acc[q]` is evaluated in every pair.
pub fn product(u: &Universe, s0: usize, rf: &Dfa, q0: usize, cap: usize, mut step: impl FnMut(usize, u32) -> usize, mut acc: impl FnMut(usize) -> bool) -> Prod {
    let mut seen: HashSet<(usize, usize)> = HashSet::new();
    let mut nodes = vec![(s0, q0, 0u32, 0u32)];
    seen.insert((s0, q0));
    let mut bad = None;
    let mut capped = false;
    let mut transitions = 0u64;
    let mut i = 0;
    while i < nodes.len() {
        let (s, q, _, _) = nodes[i];
        if acc(s) != rf.acc[q] {
            bad = Some(i);
            break;
        }
        for (ci, &c) in u.reps.iter().enumerate() {
            transitions += 1;
            let s2 = step(s, c);
            let q2 = rf.step(q, u.rep_region[ci]);
            if seen.insert((s2, q2)) {
                nodes.push((s2, q2, i as u32, c));
            }
        }
        if nodes.len() > cap {
            capped = true;
            break;
        }
        i += 1;
    }
    Prod { nodes, bad, capped, transitions }
}

pub fn product_terms(u: &Universe, re: &mut ReManager, t: RegLan, rf: &Dfa, q0: usize) -> Prod {
    product(u, ptr(t), rf, q0, PAIR_CAP, |s, c| ptr(re.char_derivative(as_re(s), c)), |s| as_re(s).nullable)
}

pub fn product_auto(u: &Universe, a: &Automaton, s0: usize, rf: &Dfa, q0: usize) -> Prod {
    product(u, s0, rf, q0, PAIR_CAP, |s, c| a.next(a.state(s), c).id(), |s| a.state(s).is_final())
}

pub fn sword(w: &[u32]) -> SmtString {
    SmtString::from(w.to_vec())
}

pub fn show_word(w: &[u32]) -> String {
    format!("{:?}", w)
}

/// End points of a CharSet, recovered through `contains` only (pick() may return any member): binary search for the
/// first and the last member around a known member.
pub fn bounds_of(cs: &CharSet) -> (u32, u32) {
    let p = cs.pick();
    // smallest member in [0, p]
    let (mut lo, mut hi) = (0u32, p);
    while lo < hi {
        let mid = lo + (hi - lo) / 2;
        if cs.contains(mid) {
            hi = mid;
        } else {
            lo = mid + 1;
        }
    }
    let start = lo;
    // largest member in [p, MAX]
    let (mut lo, mut hi) = (p, MAX_CHAR);
    while lo < hi {
        let mid = lo + (hi - lo + 1) / 2;
        if cs.contains(mid) {
            lo = mid;
        } else {
            hi = mid - 1;
        }
    }
    (start, lo)
}

/// intervals of the derivative classes of a term, as (lo, hi)
pub fn class_intervals(t: RegLan) -> Vec<(u32, u32)> {
    t.char_ranges().map(bounds_of).collect()
}

pub fn my_class_of(ivs: &[(u32, u32)], c: u32) -> ClassId {
    match ivs.iter().position(|&(l, h)| l <= c && c <= h) {
        Some(i) => ClassId::Interval(i),
        None => ClassId::Complement,
    }
}

/// boundary characters of a list of intervals: 0, MAX, every end point and the characters just outside
pub fn boundary_chars(ivs: &[(u32, u32)]) -> Vec<u32> {
    let mut b: Vec<u32> = vec![0, MAX_CHAR];
    for &(l, h) in ivs {
        b.push(l);
        b.push(h);
        if l > 0 {
            b.push(l - 1);
        }
        if h < MAX_CHAR {
            b.push(h + 1);
        }
    }
    b.sort_unstable();
    b.dedup();
    b
}

fn covered(ivs: &[(u32, u32)]) -> u64 {
    ivs.iter().map(|&(l, h)| (h - l + 1) as u64).sum()
}

fn sorted_disjoint(ivs: &[(u32, u32)]) -> bool {
    ivs.iter().all(|&(l, h)| l <= h && h <= MAX_CHAR) && ivs.windows(2).all(|w| w[0].1 < w[1].0)
}

// ---------------------------------------------------------------------------------------------
// families per property and tier

pub struct Truncated {
    pub base: Box<dyn Family>,
    pub n: usize,
}
impl Family for Truncated {
    fn name(&self) -> String {
        format!("first {} of {}", self.n.min(self.base.len()), self.base.name())
    }
    fn universe(&self) -> &Universe {
        self.base.universe()
    }
    fn len(&self) -> usize {
        self.n.min(self.base.len())
    }
    fn get(&self, i: usize) -> P {
        self.base.get(i)
    }
    fn is_shallow(&self, i: usize) -> bool {
        self.base.is_shallow(i)
    }
    fn include(&self, i: usize) -> bool {
        self.base.include(i)
    }
}

/// the same family, with every `every`-th program also getting the full-alphabet sweeps
pub struct MoreSweeps {
    pub base: Box<dyn Family>,
    pub every: usize,
}
impl Family for MoreSweeps {
    fn name(&self) -> String {
        format!("{} (full-alphabet sweeps on every {}th program)", self.base.name(), self.every)
    }
    fn universe(&self) -> &Universe {
        self.base.universe()
    }
    fn len(&self) -> usize {
        self.base.len()
    }
    fn get(&self, i: usize) -> P {
        self.base.get(i)
    }
    fn is_shallow(&self, i: usize) -> bool {
        self.base.is_shallow(i) || i % self.every == 0
    }
    fn include(&self, i: usize) -> bool {
        self.base.include(i)
    }
}

/// every `stride`-th program of a family
pub struct Strided {
    pub base: Box<dyn Family>,
    pub stride: usize,
}
impl Family for Strided {
    fn name(&self) -> String {
        format!("every {}th program of {}", self.stride, self.base.name())
    }
    fn universe(&self) -> &Universe {
        self.base.universe()
    }
    fn len(&self) -> usize {
        (self.base.len() + self.stride - 1) / self.stride
    }
    fn get(&self, i: usize) -> P {
        self.base.get(i * self.stride)
    }
    fn is_shallow(&self, i: usize) -> bool {
        self.base.is_shallow(i * self.stride)
    }
    fn include(&self, i: usize) -> bool {
        self.base.include(i * self.stride)
    }
}

pub fn families(kind: Kind, tier: Tier) -> Vec<Box<dyn Family>> {
    let mut v: Vec<Box<dyn Family>> = vec![];
    match (kind, tier) {
        (Kind::C03, Tier::Quick) => {
            v.push(Box::new(Truncated { base: Box::new(core_quick()), n: 60_000 }));
            v.push(Box::new(Truncated { base: Box::new(side_family(false)), n: 20_000 }));
            v.push(Box::new(Truncated { base: Box::new(core_other_universe(1, false)), n: 20_000 }));
            v.push(Box::new(classics()));
            v.push(Box::new(Strided { base: Box::new(level3_slice(false)), stride: 17 }));
            v.push(Box::new(Strided { base: Box::new(level3_pairs(false)), stride: 3 }));
            v.push(Box::new(Strided { base: Box::new(comp_over_level2()), stride: 11 }));
            v.push(Box::new(Strided { base: Box::new(nested_loops(false)), stride: 5 }));
            v.push(Box::new(many_ranges()));
            v.push(Box::new(overlap_frames()));
            v.push(Box::new(spellings()));
        }
        (Kind::C03, Tier::Thorough) => {
            v.push(Box::new(core_quick()));
            v.push(Box::new(side_family(false)));
            v.push(Box::new(core_other_universe(1, false)));
            v.push(Box::new(core_other_universe(2, false)));
            v.push(Box::new(classics()));
            v.push(Box::new(level3_slice(false)));
            v.push(Box::new(level3_pairs(false)));
            v.push(Box::new(comp_over_level2()));
            v.push(Box::new(nested_loops(true)));
            v.push(Box::new(Strided { base: Box::new(core_wide()), stride: 7 }));
            v.push(Box::new(overlap_frames()));
            v.push(Box::new(spellings()));
        }
        (Kind::C14, Tier::Quick) => {
            v.push(Box::new(Truncated { base: Box::new(core_quick()), n: 100_000 }));
            v.push(Box::new(Truncated { base: Box::new(side_family(false)), n: 30_000 }));
            v.push(Box::new(classics()));
            v.push(Box::new(many_ranges()));
        }
        (_, Tier::Quick) => {
            if matches!(kind, Kind::C19 | Kind::C02) {
                v.push(Box::new(big_classics()));
            }
            v.push(Box::new(core_quick()));
            v.push(Box::new(side_family(false)));
            v.push(Box::new(core_other_universe(1, false)));
            v.push(Box::new(core_other_universe(2, false)));
            v.push(Box::new(classics()));
            v.push(Box::new(level3_slice(false)));
            v.push(Box::new(level3_pairs(false)));
            v.push(Box::new(nested_loops(false)));
            v.push(Box::new(comp_over_level2()));
            v.push(Box::new(many_ranges()));
            v.push(Box::new(overlap_frames()));
            v.push(Box::new(spellings()));
            v.push(Box::new(same_body_loops()));
            // a character (or sigma*) in front of / behind complements of level-2 programs: level 4
            v.push(Box::new(BinaryWith { small: vec![Arc::new(P::Rng(1, 1)), Arc::new(P::All)], base: Box::new(comp_over_level2()), stride: 13, offset: 0 }));
            v.push(Box::new(EpsProbe { base: Box::new(level3_slice(false)), stride: 7, range: (2, 2) }));
            v.push(Box::new(EpsProbe { base: Box::new(level3_pairs(false)), stride: 3, range: (1, 1) }));
        }
        (_, Tier::Thorough) => {
            v.push(Box::new(big_classics()));
            // single-step sweeps over all 196608 characters on a stride of level 2 as well (C02, C03, C14 use them)
            v.push(Box::new(MoreSweeps { base: Box::new(core_wide()), every: 4001 }));
            v.push(Box::new(core_thorough_extra()));
            v.push(Box::new(side_family(true)));
            v.push(Box::new(core_other_universe(1, true)));
            v.push(Box::new(core_other_universe(2, true)));
            v.push(Box::new(classics()));
            // level 3: every unary operator over all of the quick level 2, binary operators between
            // level-1 terms and a stride of level 2
            v.push(Box::new(UnaryOver { base: Box::new(core_quick()), uops: uops_quick(), stride: 1 }));
            let q = core_quick();
            let small: Vec<Arc<P>> = q.l1.iter().take(60).cloned().collect();
            v.push(Box::new(BinaryWith { small, base: Box::new(core_quick()), stride: 97, offset: 405 + 3240 }));
            v.push(Box::new(level3_full()));
            v.push(Box::new(level3_extra()));
            v.push(Box::new(level3_pairs(true)));
            v.push(Box::new(nested_loops(true)));
            v.push(Box::new(many_ranges()));
            v.push(Box::new(overlap_frames()));
            v.push(Box::new(spellings()));
            v.push(Box::new(same_body_loops()));
            v.push(Box::new(BinaryWith { small: vec![Arc::new(P::Rng(1, 1)), Arc::new(P::All)], base: Box::new(comp_over_level2()), stride: 2, offset: 0 }));
            v.push(Box::new(EpsProbe { base: Box::new(level3_slice(false)), stride: 1, range: (2, 2) }));
            v.push(Box::new(EpsProbe { base: Box::new(level3_pairs(true)), stride: 2, range: (1, 1) }));
        }
    }
    v
}

fn shift_of(seed: u64) -> usize {
    ((seed.wrapping_mul(977)) % CHUNK as u64) as usize
}

/// chunk c of a family of length len covers [lo, hi)
fn chunk_bounds(len: usize, shift: usize, c: usize) -> (usize, usize) {
    let lo = (c * CHUNK).saturating_sub(shift);
    let hi = ((c + 1) * CHUNK - shift).min(len);
    (lo.min(len), hi)
}
fn num_chunks(len: usize, shift: usize) -> usize {
    (len + shift + CHUNK - 1) / CHUNK
}

pub struct RegexEngine {
    pub kind: Kind,
}

thread_local! {
    static NUM_BATCHES: std::cell::RefCell<HashMap<(&'static str, &'static str, u64), usize>> = std::cell::RefCell::new(HashMap::new());
    static FAMILIES: std::cell::RefCell<Option<(Kind, Tier, Vec<Box<dyn Family>>)>> = std::cell::RefCell::new(None);
}

/// what a chunk thread owns
struct Chunk<'a> {
    kind: Kind,
    u: &'a Universe,
    re: ReManager,
    cache: RefCache,
    /// the term of the previous program of the chunk (abandoned traversals on it precede the next program's checks)
    prev: Option<usize>,
}

impl Engine for RegexEngine {
    fn name(&self) -> &'static str {
        "regex"
    }

    fn meta(&self, ctx: &Ctx) -> Meta {
        let fams = families(self.kind, ctx.tier);
        let space = fams.iter().map(|f| format!("{}: {} indices (indices whose program already belongs to another family are skipped; 'programs' counts what was evaluated)", f.name(), f.len())).collect::<Vec<_>>().join("; ");
        let (level, rule) = match self.kind {
            Kind::C01 => ("model_checking", "every construction program of the listed families is built through ReManager and through the SMT-LIB wrappers; product BFS of the term's derivative graph with the reference DFA of the program, on 8+ representative characters (both end points of every region); nullable == acceptance in every product state, str_in_re called on the shortest word of every product state; non-trivial = programs whose product has >= 2 states"),
            Kind::C02 => ("model_checking", "compile(e) and try_compile(e, exact bound) for every program; product BFS automaton x reference DFA; totality of next() on representative and boundary characters of every state; accepts/str_next on the shortest word of every product state; full 196608-character sweeps for level-1 automata; non-trivial = automata with >= 2 states"),
            Kind::C03 => ("model_checking", "for every program: quotient check of char_derivative for every representative character (product BFS from the derivative term against the reference quotient), class cover/uniformity, class_derivative for valid and invalid ids, set_derivative on every [a,b] over the boundary characters of the term's classes, str_derivative vs fold of char_derivative; non-trivial = programs with >= 2 derivative classes"),
            Kind::C04 => ("model_checking", "compiled automata of every program: minimize, state count == size of the canonical reference DFA, product BFS for language equality, consistency of counts/flags; non-trivial = automata that shrink"),
            Kind::C05 => ("model_checking", "is_empty_re / get_string of every program against emptiness and membership in the reference DFA, str_in_re and compile().accepts on the witness; non-trivial = programs with a non-empty language and a non-empty witness, plus programs whose language is empty but whose term is not syntactically empty"),
            Kind::C14 => ("model_checking", "compiled automata: combined_char_partition uniformity on boundary characters, pick_alphabet, compile_successors cell by cell, edges, char_set_next on boundary sets, counts, remove_unreachable_states; non-trivial = automata with >= 2 states"),
            Kind::C18 => ("model_checking", "start_char(e,c) for every representative character against non-emptiness of the reference quotient; start_class for every class id and invalid ids; non-trivial = programs with at least one true and one false answer"),
            Kind::C19 => ("model_checking", "iter_derivatives vs own BFS closure under char_derivative over representative, class-representative and class-boundary characters; try_compile at bounds 0,1,N-1,N,N+1,MAX (all n<=N+1 for N<=8); compile state count; non-trivial = programs with >= 3 derivatives"),
        };
        Meta {
            level,
            rule: rule.to_string(),
            assumptions: vec![
                "reference semantics: canonical reference-DFA algebra over region letters (subset/product constructions, Moore minimisation), cross-validated at start-up against word-level SMT-LIB denotation on all words of length <= 4".into(),
                "strings range over representative characters (both end points of every region of the universe), unbounded length; single-step full-alphabet sweeps where stated".into(),
                "every explored transition is an execution of the real code (char_derivative / Automaton::next); there is no separate model of the implementation".into(),
            ],
            exhaustive: true,
            space,
        }
    }

    fn num_batches(&self, ctx: &Ctx) -> usize {
        // building the families is not free: remember the answer
        let key = (self.kind.id(), ctx.tier.name(), ctx.seed);
        if let Some(n) = NUM_BATCHES.with(|c| c.borrow().get(&key).copied()) {
            return n;
        }
        let shift = shift_of(ctx.seed);
        let n = XV_NB + families(self.kind, ctx.tier).iter().map(|f| num_chunks(f.len(), shift)).sum::<usize>();
        NUM_BATCHES.with(|c| c.borrow_mut().insert(key, n));
        n
    }

    fn run_batch(&self, ctx: &Ctx, batch: usize, rep: &mut Report) {
        clear_current_case();
        if batch < XV_NB {
            // machinery self-check: the two reference semantics agree (split over XV_NB batches)
            cross_validate(rep, batch, XV_NB);
            return;
        }
        let shift = shift_of(ctx.seed);
        let mut b = batch - XV_NB;
        // the families are built once per worker process
        FAMILIES.with(|cell| {
            let mut g = cell.borrow_mut();
            let stale = match &*g {
                Some((k, t, _)) => *k != self.kind || *t != ctx.tier,
                None => true,
            };
            if stale {
                *g = Some((self.kind, ctx.tier, families(self.kind, ctx.tier)));
                beat();
            }
            let fams = &g.as_ref().unwrap().2;
            for (fi, f) in fams.iter().enumerate() {
                let n = num_chunks(f.len(), shift);
                if b < n {
                    let (lo, hi) = chunk_bounds(f.len(), shift, b);
                    run_chunk(self.kind, ctx.tier, fi, f.as_ref(), lo, hi, None, rep);
                    return;
                }
                b -= n;
            }
        });
    }

    fn replay(&self, _ctx: &Ctx, case: &Value, rep: &mut Report) {
        let kind = Kind::from_id(case["kind"].as_str().unwrap_or("")).unwrap_or(self.kind);
        if let Some(h) = case.get("history") {
            let tier = if h["tier"] == "thorough" { Tier::Thorough } else { Tier::Quick };
            let fi = h["family"].as_u64().unwrap_or(0) as usize;
            let lo = h["lo"].as_u64().unwrap_or(0) as usize;
            let idx = h["index"].as_u64().unwrap_or(0) as usize;
            let fams = families(kind, tier);
            if let Some(f) = fams.into_iter().nth(fi) {
                run_chunk(kind, tier, fi, f.as_ref(), lo, idx + 1, Some(idx), rep);
            }
            return;
        }
        let uid = case["universe"].as_u64().unwrap_or(0) as usize;
        let p = match P::parse(case["prog"].as_str().unwrap_or("")) {
            Ok(p) => p,
            Err(e) => {
                rep.note(format!("cannot parse program: {}", e));
                return;
            }
        };
        let f = ListFamily { name: "replay".into(), u: Universe::new(uid), items: vec![p], shallow: if case["shallow"] == true { 1 } else { 0 } };
        run_chunk(kind, Tier::Quick, 0, &f, 0, 1, None, rep);
    }

    fn hang_is_violation(&self, _prop: &str) -> bool {
        // every regex check calls functions that are stated to return a result; the reference work is done before a case
        // is published, so only the code under test (and the product walk over its finite answers) runs inside a case
        true
    }
    fn max_group(&self, _ctx: &Ctx, batch: usize) -> usize {
        // the reference cross-validation slices are heavy: one per worker
        if batch < XV_NB {
            1
        } else {
            usize::MAX
        }
    }
}

/// Run programs lo..hi of a family on one fresh manager, in a fresh OS thread (so that the
/// thread-local manager of the wrappers is fresh too). When `only` is set (replay of a
/// history-dependent case), violations are reported for that index only.
fn run_chunk(kind: Kind, tier: Tier, fi: usize, f: &dyn Family, lo: usize, hi: usize, only: Option<usize>, rep: &mut Report) {
    // programs are generated here (the family is not Send), the checks run in the thread
    let progs: Vec<(usize, P, bool)> = (lo..hi).filter(|&i| f.include(i)).map(|i| (i, f.get(i), f.is_shallow(i))).collect();
    let u = f.universe().clone();
    beat();
    let r = std::thread::Builder::new()
        .stack_size(256 << 20)
        .spawn(move || {
            let mut rep = Report::new();
            let mut ch = Chunk { kind, u: &u, re: ReManager::new(), cache: RefCache::new(u.clone()), prev: None };
            for (i, p, shallow) in &progs {
                beat();
                // the reference DFA is machinery: a slow reference must never look like a hang of the code under test
                clear_current_case();
                let rf = ch.cache.dfa(p);
                beat();
                set_current_case(json!({"__engine": "regex", "kind": kind.id(), "universe": u.id, "prog": p.show(), "shallow": shallow}));
                let mut msgs = vec![];
                let mut local = Report::new();
                check_program(&mut ch, p, &rf, *shallow, &mut local, &mut msgs);
                if only.map(|o| o != *i).unwrap_or(false) {
                    continue;
                }
                rep.merge(local);
                if !msgs.is_empty() && rep.violations.len() >= MAX_VIOL_PER_BATCH {
                    // enough replayable counterexamples from this chunk: count the rest
                    rep.inc("violations");
                    rep.hist("violations_by_property", kind.id());
                    continue;
                }
                if !msgs.is_empty() {
                    // does it fail on a fresh manager too? (then the program alone is the counterexample)
                    let alone = {
                        let p2 = p.clone();
                        let u2 = u.clone();
                        let sh = *shallow;
                        std::thread::Builder::new()
                            .stack_size(256 << 20)
                            .spawn(move || {
                                let mut c2 = Chunk { kind, u: &u2, re: ReManager::new(), cache: RefCache::new(u2.clone()), prev: None };
                                let mut m2 = vec![];
                                let mut r2 = Report::new();
                                let rf2 = c2.cache.dfa(&p2);
                                check_program(&mut c2, &p2, &rf2, sh, &mut r2, &mut m2);
                                !m2.is_empty()
                            })
                            .unwrap()
                            .join()
                            .unwrap_or(true)
                    };
                    let case = if alone {
                        json!({"kind": kind.id(), "universe": u.id, "prog": p.show(), "shallow": shallow})
                    } else {
                        rep.inc("history_dependent_violations");
                        json!({"kind": kind.id(), "universe": u.id, "prog": p.show(), "shallow": shallow,
                               "history": {"tier": tier.name(), "family": fi, "lo": lo, "index": i}})
                    };
                    rep.violation(kind.id(), "regex", case, format!("{}: {}", p.show(), msgs.join(" | ")));
                }
            }
            rep
        })
        .unwrap()
        .join();
    match r {
        Ok(r) => rep.merge(r),
        Err(_) => {
            rep.inc("violations");
            rep.note("a chunk thread panicked outside the guarded region".into());
        }
    }
}

fn check_program(ch: &mut Chunk<'_>, p: &P, rf: &Arc<Dfa>, shallow: bool, rep: &mut Report, msgs: &mut Vec<String>) {
    rep.inc("evaluations");
    rep.inc("programs");
    let rf = rf.clone();
    let u = ch.u;
    let built = guarded(|| build_mgr(u, &mut ch.re, p));
    let t = match built {
        Ok(t) => t,
        Err(e) => {
            if ch.kind == Kind::C01 {
                msgs.push(format!("constructor panicked: {}", e));
            } else {
                rep.inc("build_panics");
            }
            return;
        }
    };
    let kind = ch.kind;
    let r = guarded(|| match kind {
        Kind::C01 => check_c01(ch, p, t, &rf, rep),
        Kind::C02 => check_c02(ch, t, &rf, shallow, rep),
        Kind::C03 => check_c03(ch, t, &rf, shallow, rep),
        Kind::C04 => check_c04(ch, t, &rf, rep),
        Kind::C05 => check_c05(ch, t, &rf, rep),
        Kind::C14 => check_c14(ch, t, shallow, rep),
        Kind::C18 => check_c18(ch, t, &rf, rep),
        Kind::C19 => check_c19(ch, t, rep),
    });
    match r {
        Ok(m) => msgs.extend(m),
        Err(e) => msgs.push(format!("the code under test panicked: {}", e)),
    }
    if rep.samples.len() < 2 {
        let s = json!({"program": p.show(), "universe": u.id, "term": format!("{}", t), "reference_dfa_states": rf.n()});
        rep.sample(|| s);
    }
}

fn count_prod(rep: &mut Report, pr: &Prod) {
    rep.add("states", pr.nodes.len() as u64);
    rep.add("transitions", pr.transitions);
    rep.add("impl_traces", pr.transitions);
    rep.max("max_product_states", pr.nodes.len() as u64);
    if pr.capped {
        rep.inc("caps_hit");
    }
}

// ---------------------------------------------------------------------------------------------
// C01

fn probe_words(u: &Universe, pr: &Prod) -> Vec<Vec<u32>> {
    // shortest word of every product state, each extended by every representative character,
    // plus all words of length <= 2
    let mut set: HashSet<Vec<u32>> = HashSet::new();
    let mut out = vec![];
    let mut push = |w: Vec<u32>, out: &mut Vec<Vec<u32>>| {
        if set.insert(w.clone()) {
            out.push(w);
        }
    };
    let n = pr.nodes.len().min(64);
    for i in 0..n {
        let w = pr.word(i);
        for &c in &u.reps {
            let mut w2 = w.clone();
            w2.push(c);
            push(w2, &mut out);
        }
        push(w, &mut out);
    }
    for &c in &u.reps {
        for &d in &u.reps {
            push(vec![c, d], &mut out);
        }
    }
    out
}

fn check_c01(ch: &mut Chunk<'_>, p: &P, t: RegLan, rf: &Dfa, rep: &mut Report) -> Vec<String> {
    let u = ch.u;
    let mut msgs = vec![];
    let pr = product_terms(u, &mut ch.re, t, rf, rf.init);
    count_prod(rep, &pr);
    if pr.nodes.len() >= 2 {
        rep.inc("nontrivial");
    }
    rep.hist("product_states", &bucket(pr.nodes.len()));
    if let Some(b) = pr.bad {
        let w = pr.word(b);
        let (s, q, _, _) = pr.nodes[b];
        msgs.push(format!("word {}: the derivative term {} has nullable={} but the SMT-LIB language {} the word", show_word(&w), as_re(s), as_re(s).nullable, if rf.acc[q] { "contains" } else { "does not contain" }));
        return msgs;
    }
    if t.nullable != rf.acc[rf.init] {
        msgs.push(format!("nullable flag of the term is {} but the empty string is {}in the language", t.nullable, if rf.acc[rf.init] { "" } else { "not " }));
    }
    let words = probe_words(u, &pr);
    // membership through the manager's public entry point
    for w in &words {
        let exp = rf.accepts(&u.word_to_regions(w));
        rep.inc("str_in_re_calls");
        if ch.re.str_in_re(&sword(w), t) != exp {
            msgs.push(format!("ReManager::str_in_re({}) = {} but expected {}", show_word(w), !exp, exp));
            break;
        }
    }
    // the same construction through the SMT-LIB-named wrappers (thread-local manager)
    let tw = build_wrap(u, p);
    rep.inc("wrapper_programs");
    if tw.nullable != rf.acc[rf.init] {
        msgs.push(format!("wrapper-built term {}: nullable={} but the empty string is {}in the language", tw, tw.nullable, if rf.acc[rf.init] { "" } else { "not " }));
    }
    for w in &words {
        let exp = rf.accepts(&u.word_to_regions(w));
        rep.inc("wrapper_str_in_re_calls");
        if wr::str_in_re(&sword(w), tw) != exp {
            msgs.push(format!("smt_regular_expressions::str_in_re({}, {}) = {} but expected {}", show_word(w), tw, !exp, exp));
            break;
        }
    }
    msgs
}

fn bucket(n: usize) -> String {
    match n {
        0..=9 => n.to_string(),
        10..=19 => "10-19".into(),
        20..=49 => "20-49".into(),
        50..=199 => "50-199".into(),
        _ => "200+".into(),
    }
}

// ---------------------------------------------------------------------------------------------
// C02

fn state_intervals(a: &Automaton, s: usize) -> Vec<(u32, u32)> {
    a.state(s).char_ranges().map(bounds_of).collect()
}

fn check_auto_language(u: &Universe, a: &Automaton, rf: &Dfa, what: &str, rep: &mut Report, msgs: &mut Vec<String>) -> Option<Prod> {
    let pr = product_auto(u, a, a.initial_state().id(), rf, rf.init);
    count_prod(rep, &pr);
    if let Some(b) = pr.bad {
        let w = pr.word(b);
        let (s, q, _, _) = pr.nodes[b];
        msgs.push(format!("{}: after word {} the automaton is in state {} (final={}) but the language {} the word", what, show_word(&w), s, a.state(s).is_final(), if rf.acc[q] { "contains" } else { "does not contain" }));
        return None;
    }
    Some(pr)
}

fn check_totality(a: &Automaton, u: &Universe, rep: &mut Report, msgs: &mut Vec<String>) {
    let n = a.num_states();
    for s in 0..n {
        let st = a.state(s);
        let ivs = state_intervals(a, s);
        if !sorted_disjoint(&ivs) {
            msgs.push(format!("state {}: character intervals {:?} are not sorted and disjoint", s, ivs));
            return;
        }
        let full = covered(&ivs) == MAX_CHAR as u64 + 1;
        if !full && !st.has_default_successor() {
            msgs.push(format!("state {}: intervals {:?} do not cover the alphabet and there is no default successor", s, ivs));
            return;
        }
        let mut chars = boundary_chars(&ivs);
        chars.extend(u.reps.iter().copied());
        for &c in &chars {
            rep.inc("next_calls");
            // next() panics if a successor is missing: the whole section is guarded by the caller
            let t = a.next(st, c).id();
            if t >= n {
                msgs.push(format!("state {}: next on {} leads to state id {} >= num_states {}", s, c, t, n));
                return;
            }
        }
    }
}

fn full_sweep(a: &Automaton, u: &Universe, rep: &mut Report, msgs: &mut Vec<String>) {
    // every character of the alphabet behaves like the first character of its region, in every state
    let n = a.num_states();
    for s in 0..n {
        let st = a.state(s);
        for (ri, &(l, h)) in u.regions.iter().enumerate() {
            let exp = a.next(st, l).id();
            for c in l..=h {
                if a.next(st, c).id() != exp {
                    msgs.push(format!("state {}: next({}) = {} differs from next({}) = {} although both characters are in region {} which the program cannot separate", s, c, a.next(st, c).id(), l, exp, ri));
                    return;
                }
            }
        }
        rep.add("sweep_steps", MAX_CHAR as u64 + 1);
        rep.add("transitions", MAX_CHAR as u64 + 1);
        rep.add("impl_traces", MAX_CHAR as u64 + 1);
    }
}

fn check_c02(ch: &mut Chunk<'_>, t: RegLan, rf: &Dfa, shallow: bool, rep: &mut Report) -> Vec<String> {
    let u = ch.u;
    let mut msgs = vec![];
    let a = ch.re.compile(t);
    let n = a.num_states();
    if n >= 2 {
        rep.inc("nontrivial");
    }
    rep.hist("automaton_states", &bucket(n));
    if a.states().count() != n {
        msgs.push(format!("num_states() = {} but states() yields {}", n, a.states().count()));
    }
    check_totality(&a, u, rep, &mut msgs);
    if !msgs.is_empty() {
        return msgs;
    }
    let pr = match check_auto_language(u, &a, rf, "compile", rep, &mut msgs) {
        Some(p) => p,
        None => return msgs,
    };
    // public string-level entry points on the shortest word of every product state (and one-step extensions)
    for i in 0..pr.nodes.len().min(64) {
        let w = pr.word(i);
        let (s, q, _, _) = pr.nodes[i];
        let sw = sword(&w);
        rep.inc("accepts_calls");
        if a.accepts(&sw) != rf.acc[q] {
            msgs.push(format!("accepts({}) = {} but expected {}", show_word(&w), !rf.acc[q], rf.acc[q]));
            break;
        }
        if a.str_next(a.initial_state(), &sw).id() != s {
            msgs.push(format!("str_next(initial, {}) = {} but stepping with next gives {}", show_word(&w), a.str_next(a.initial_state(), &sw).id(), s));
            break;
        }
    }
    // str_next from every state (not only the initial one) is the fold of next
    let nwords = pr.nodes.len().min(12);
    'outer: for st in a.states().take(48) {
        for i in 0..nwords {
            let w = pr.word(i);
            let sw = sword(&w);
            rep.inc("str_next_calls");
            let mut cur = st;
            for &c in &w {
                cur = a.next(cur, c);
            }
            let got = a.str_next(st, &sw);
            if got.id() != cur.id() {
                msgs.push(format!("str_next(state {}, {}) = {} but stepping with next gives {}", st.id(), show_word(&w), got.id(), cur.id()));
                break 'outer;
            }
        }
    }
    // try_compile with the exact bound must succeed and be the same language
    // C02 speaks about try_compile only "when it returns Some" (whether it must is C19's business)
    match ch.re.try_compile(t, n) {
        None => rep.inc("try_compile_none_at_exact_bound"),
        Some(b) => {
            rep.inc("try_compile_automata");
            check_totality(&b, u, rep, &mut msgs);
            if msgs.is_empty() {
                check_auto_language(u, &b, rf, "try_compile", rep, &mut msgs);
            }
        }
    }
    if shallow && msgs.is_empty() {
        full_sweep(&a, u, rep, &mut msgs);
    }
    msgs
}

// ---------------------------------------------------------------------------------------------
// C04 (compiled automata)

pub fn check_counts(a: &Automaton, msgs: &mut Vec<String>) {
    let n = a.num_states();
    if a.states().count() != n {
        msgs.push(format!("num_states() = {} but states() yields {}", n, a.states().count()));
    }
    // ids identify states: pairwise different, and state(id) is the state with that id (the order in which
    // states() yields them is not specified)
    let mut ids: Vec<usize> = a.states().map(|s| s.id()).collect();
    ids.sort_unstable();
    ids.dedup();
    if ids.len() != a.states().count() {
        msgs.push("two states have the same id".to_string());
        return;
    }
    for s in a.states() {
        if s.id() >= n || a.state(s.id()).id() != s.id() {
            msgs.push(format!("state(id) does not return the state with id {}", s.id()));
            return;
        }
    }
    let nf = a.states().filter(|s| s.is_final()).count();
    if a.num_final_states() != nf {
        msgs.push(format!("num_final_states() = {} but {} states are final", a.num_final_states(), nf));
    }
    let mut fl: Vec<usize> = a.final_states().map(|s| s.id()).collect();
    let mut ex: Vec<usize> = a.states().filter(|s| s.is_final()).map(|s| s.id()).collect();
    fl.sort_unstable();
    ex.sort_unstable();
    if fl != ex {
        msgs.push(format!("final_states() yields {:?} but the final states are {:?}", fl, ex));
    }
    if a.initial_state().id() >= n.max(1) {
        msgs.push("initial state id out of range".into());
    }
}

fn check_c04(ch: &mut Chunk<'_>, t: RegLan, rf: &Dfa, rep: &mut Report) -> Vec<String> {
    let u = ch.u;
    let mut msgs = vec![];
    let mut a = ch.re.compile(t);
    let before = a.num_states();
    a.minimize();
    let after = a.num_states();
    rep.hist("minimized_states", &bucket(after));
    if after < before {
        rep.inc("nontrivial");
    }
    // all states of a compiled automaton are reachable, so the result must have the Myhill-Nerode index
    if after != rf.n() {
        msgs.push(format!("minimize: {} states (from {}), but the canonical minimal complete DFA of the language has {}", after, before, rf.n()));
    }
    check_counts(&a, &mut msgs);
    check_totality(&a, u, rep, &mut msgs);
    if msgs.is_empty() {
        check_auto_language(u, &a, rf, "minimize(compile)", rep, &mut msgs);
    }
    msgs
}

// ---------------------------------------------------------------------------------------------
// C05

fn check_c05(ch: &mut Chunk<'_>, t: RegLan, rf: &Dfa, rep: &mut Report) -> Vec<String> {
    let u = ch.u;
    let mut msgs = vec![];
    let ref_empty = rf.is_empty_lang();
    rep.inc("states"); // one reachability question per program on the reference side
    rep.add("transitions", rf.n() as u64 * u.k() as u64);
    let e = ch.re.is_empty_re(t);
    rep.inc("impl_traces");
    if e != ref_empty {
        msgs.push(format!("is_empty_re = {} but the language is {}", e, if ref_empty { "empty" } else { "not empty" }));
    }
    if ref_empty {
        rep.hist("emptiness", if t.is_empty() { "empty, syntactically" } else { "empty, only semantically" });
        if !t.is_empty() {
            rep.inc("nontrivial");
        }
    } else {
        rep.hist("emptiness", "non-empty");
    }
    match ch.re.get_string(t) {
        None => {
            if !ref_empty {
                msgs.push(format!("get_string = None but the language contains {:?}", rf.shortest_word()));
            }
        }
        Some(w) => {
            let codes: Vec<u32> = w.iter().copied().collect();
            rep.hist("witness_length", &bucket(codes.len()));
            if ref_empty {
                msgs.push(format!("get_string = {} but the language is empty", w));
            } else {
                if !codes.is_empty() {
                    rep.inc("nontrivial");
                }
                if !w.is_good() {
                    msgs.push(format!("get_string returned a string with a code point above 0x2FFFF: {:?}", codes));
                } else {
                    if !rf.accepts(&u.word_to_regions(&codes)) {
                        msgs.push(format!("get_string = {:?} is not in the language", codes));
                    }
                    if !ch.re.str_in_re(&w, t) {
                        msgs.push(format!("get_string = {:?} is rejected by str_in_re", codes));
                    }
                    let a = ch.re.compile(t);
                    if !a.accepts(&w) {
                        msgs.push(format!("get_string = {:?} is rejected by the compiled automaton", codes));
                    }
                }
            }
        }
    }
    msgs
}

// ---------------------------------------------------------------------------------------------
// C18

fn check_c18(ch: &mut Chunk<'_>, t: RegLan, rf: &Dfa, rep: &mut Report) -> Vec<String> {
    let u = ch.u;
    let mut msgs = vec![];
    // which reference states have a non-empty language
    let live: Vec<bool> = rf.live_states();
    let ivs = class_intervals(t);
    let mut chars = boundary_chars(&ivs);
    chars.extend(u.reps.iter().copied());
    chars.sort_unstable();
    chars.dedup();
    let (mut yes, mut no) = (0, 0);
    for &c in &chars {
        let exp = live[rf.step(rf.init, u.region_of(c))];
        rep.inc("states");
        rep.inc("transitions");
        rep.inc("impl_traces");
        let got = ch.re.start_char(t, c);
        if exp {
            yes += 1
        } else {
            no += 1
        }
        if got != exp {
            msgs.push(format!("start_char(e, {}) = {} but {} member string starts with that character", c, got, if exp { "some" } else { "no" }));
            break;
        }
    }
    if yes > 0 && no > 0 {
        rep.inc("nontrivial");
    }
    // classes: the answer must hold for every character of the class
    let ids: Vec<ClassId> = t.class_ids().collect();
    for cid in ids {
        let members: Vec<u32> = chars.iter().copied().filter(|&c| my_class_of(&ivs, c) == cid).collect();
        match ch.re.start_class(t, cid) {
            Err(e) => msgs.push(format!("start_class(e, {}) failed with {:?} for a class id listed by class_ids()", cid, e)),
            Ok(got) => {
                rep.inc("start_class_calls");
                for &c in &members {
                    let exp = live[rf.step(rf.init, u.region_of(c))];
                    if got != exp {
                        msgs.push(format!("start_class(e, {}) = {} but for character {} of that class the answer is {}", cid, got, c, exp));
                        break;
                    }
                }
            }
        }
    }
    let n = ivs.len();
    let mut bad_ids = vec![ClassId::Interval(n), ClassId::Interval(n + 7), ClassId::Interval(usize::MAX)];
    if covered(&ivs) == MAX_CHAR as u64 + 1 {
        bad_ids.push(ClassId::Complement);
    }
    for cid in bad_ids {
        match ch.re.start_class(t, cid) {
            Err(Error::BadClassId) => {}
            other => msgs.push(format!("start_class(e, {}) = {:?} for an invalid class id, expected Err(BadClassId)", cid, other)),
        }
    }
    msgs
}

// ---------------------------------------------------------------------------------------------
// C19

fn check_c19(ch: &mut Chunk<'_>, t: RegLan, rep: &mut Report) -> Vec<String> {
    let u = ch.u;
    let mut msgs = vec![];
    // traversals of the previous program's term that are abandoned half-way (an iterator dropped after two items, an
    // emptiness search that stops at the first nullable derivative, a start_char query) must leave nothing behind
    if let Some(p) = ch.prev {
        let pt = as_re(p);
        let _ = ch.re.iter_derivatives(pt).take(2).count();
        let _ = ch.re.is_empty_re(pt);
        let _ = ch.re.start_char(pt, u.reps[0]);
        rep.inc("abandoned_traversals_before_case");
    }
    ch.prev = Some(ptr(t));
    // iter_derivatives with a cap (non-termination would otherwise hang: the watchdog also covers it)
    let mut ds: Vec<usize> = vec![];
    let mut capped = false;
    for d in ch.re.iter_derivatives(t) {
        ds.push(ptr(d));
        if ds.len() > PAIR_CAP {
            capped = true;
            break;
        }
    }
    if capped {
        msgs.push(format!("iter_derivatives yielded more than {} terms", PAIR_CAP));
        return msgs;
    }
    let n = ds.len();
    rep.hist("derivative_count", &bucket(n));
    rep.max("max_derivatives", n as u64);
    if n >= 3 {
        rep.inc("nontrivial");
    }
    if ds.first() != Some(&ptr(t)) {
        msgs.push("iter_derivatives does not yield the expression itself first".into());
    }
    let set: HashSet<usize> = ds.iter().copied().collect();
    if set.len() != n {
        msgs.push(format!("iter_derivatives yields {} terms but only {} distinct ones", n, set.len()));
    }
    // pairwise distinct also for == (ids)
    for i in 0..n.min(40) {
        for j in (i + 1)..n.min(40) {
            if as_re(ds[i]) == as_re(ds[j]) {
                msgs.push("iter_derivatives yields two terms that compare equal".into());
            }
        }
    }
    // my own closure: BFS with char_derivative over representative characters and all class boundary characters
    let mut mine: HashSet<usize> = HashSet::new();
    let mut stack = vec![ptr(t)];
    mine.insert(ptr(t));
    while let Some(x) = stack.pop() {
        let e = as_re(x);
        let mut chars = boundary_chars(&class_intervals(e));
        chars.extend(u.reps.iter().copied());
        rep.inc("states");
        for c in chars {
            rep.inc("transitions");
            rep.inc("impl_traces");
            let y = ptr(ch.re.char_derivative(e, c));
            if mine.insert(y) {
                stack.push(y);
            }
        }
        if mine.len() > PAIR_CAP {
            msgs.push(format!("closure under char_derivative exceeds {} terms", PAIR_CAP));
            return msgs;
        }
    }
    if mine != set {
        let missing = mine.difference(&set).count();
        let extra = set.difference(&mine).count();
        msgs.push(format!("iter_derivatives yields {} terms; closure under char_derivative has {} ({} not yielded, {} yielded but unreachable)", n, mine.len(), missing, extra));
    }
    // compile and the bound of try_compile
    let a = ch.re.compile(t);
    if a.num_states() != n {
        msgs.push(format!("compile(e) has {} states but there are {} distinct derivatives", a.num_states(), n));
    }
    // the derivatives are expressions too: after the (failing and succeeding) attempts on the root below, and on a
    // manager that has seen many other programs, each of them must still obey its own bound
    let ds_copy: Vec<usize> = ds.clone();
    let mut bounds: Vec<usize> = vec![0, 1, n.saturating_sub(1), n, n + 1, usize::MAX];
    // bounds that do not fit in 32 bits, with low bits below and above the count
    bounds.extend([u32::MAX as usize, 1usize << 32, (1usize << 32) + n.saturating_sub(1), (1usize << 32) + n, 1usize << 40, 1usize << 63, usize::MAX - 1]);
    if n <= 8 {
        bounds.extend(0..=n + 1);
    }
    bounds.sort_unstable();
    bounds.dedup();
    for b in bounds {
        rep.inc("try_compile_calls");
        let r = ch.re.try_compile(t, b);
        let exp = b >= n && b > 0;
        match r {
            Some(x) => {
                if !exp {
                    msgs.push(format!("try_compile(e, {}) returned an automaton although there are {} derivatives", b, n));
                } else if x.num_states() != n {
                    msgs.push(format!("try_compile(e, {}) returned {} states, expected {}", b, x.num_states(), n));
                }
            }
            None => {
                if exp {
                    msgs.push(format!("try_compile(e, {}) returned None although there are only {} derivatives", b, n));
                }
            }
        }
    }
    if n <= 40 && msgs.is_empty() {
        for &d in ds_copy.iter().skip(1).take(16) {
            let e = as_re(d);
            let nd = ch.re.iter_derivatives(e).count();
            rep.inc("try_compile_calls");
            match ch.re.try_compile(e, nd) {
                Some(x) if x.num_states() == nd => {}
                Some(x) => msgs.push(format!("derivative {}: try_compile(d, {}) has {} states", e, nd, x.num_states())),
                None => msgs.push(format!("derivative {} has {} derivatives but try_compile(d, {}) returned None (after bounded attempts on the expression it derives from)", e, nd, nd)),
            }
            if nd >= 1 && ch.re.try_compile(e, nd - 1).is_some() {
                msgs.push(format!("derivative {}: try_compile(d, {}) succeeded although it has {} derivatives", e, nd - 1, nd));
            }
        }
    }
    msgs
}

// ---------------------------------------------------------------------------------------------
// C14 (compiled automata)

pub fn check_tables(a: &Automaton, extra_chars: &[u32], rep: &mut Report, msgs: &mut Vec<String>) {
    let n = a.num_states();
    check_counts(a, msgs);
    let part = a.combined_char_partition();
    let alpha = a.pick_alphabet();
    if alpha.len() != part.num_classes() {
        msgs.push(format!("pick_alphabet has {} characters but combined_char_partition has {} classes", alpha.len(), part.num_classes()));
    }
    let pivs: Vec<(u32, u32)> = part.ranges().map(bounds_of).collect();
    if !sorted_disjoint(&pivs) {
        msgs.push(format!("combined_char_partition intervals {:?} are not sorted/disjoint", pivs));
        return;
    }
    let mut classes_seen: HashSet<String> = HashSet::new();
    for &c in &alpha {
        if c > MAX_CHAR {
            msgs.push(format!("pick_alphabet contains {} > MAX_CHAR", c));
            return;
        }
        if !classes_seen.insert(format!("{}", my_class_of(&pivs, c))) {
            msgs.push(format!("pick_alphabet has two characters in class {}", my_class_of(&pivs, c)));
        }
    }
    // uniformity: all boundary characters of one class have the same successors in every state
    let mut chars = boundary_chars(&pivs);
    for s in 0..n {
        chars.extend(boundary_chars(&state_intervals(a, s)));
    }
    chars.extend(extra_chars.iter().copied());
    chars.sort_unstable();
    chars.dedup();
    let mut succ_of_class: HashMap<String, (u32, Vec<usize>)> = HashMap::new();
    for &c in &chars {
        let v: Vec<usize> = (0..n).map(|q| a.next(a.state(q), c).id()).collect();
        rep.add("transitions", n as u64);
        rep.add("impl_traces", n as u64);
        let key = format!("{}", my_class_of(&pivs, c));
        match succ_of_class.get(&key) {
            Some((c0, p)) => {
                if *p != v {
                    msgs.push(format!("combined_char_partition puts {} and {} in class {} but their successors differ: {:?} vs {:?}", c0, c, key, p, v));
                    return;
                }
            }
            None => {
                succ_of_class.insert(key, (c, v));
            }
        }
    }
    // the library's own class_of_char must agree with the intervals it lists
    for &c in &chars {
        if part.class_of_char(c) != my_class_of(&pivs, c) {
            msgs.push(format!("combined_char_partition.class_of_char({}) = {} but its intervals say {}", c, part.class_of_char(c), my_class_of(&pivs, c)));
            return;
        }
    }
    // compiled table: every cell
    let tbl = a.compile_successors();
    if tbl.num_states() != n || tbl.alphabet_size() != alpha.len() {
        msgs.push(format!("compile_successors: {} states x {} letters, expected {} x {}", tbl.num_states(), tbl.alphabet_size(), n, alpha.len()));
        return;
    }
    for q in 0..n {
        for (i, &c) in alpha.iter().enumerate() {
            rep.inc("table_cells");
            let exp = a.next(a.state(q), c).id();
            let got = tbl.eval(q as u32, i as u32) as usize;
            if got != exp {
                msgs.push(format!("compile_successors().eval({}, {}) = {} but next(state {}, {}) = {}", q, i, got, q, c, exp));
                return;
            }
        }
    }
    // edges, class_next, char_set_next
    for q in 0..n {
        rep.inc("states");
        let s = a.state(q);
        let ivs = state_intervals(a, q);
        let es: Vec<(ClassId, usize)> = a.edges(s).map(|(c, t)| (c, t.id())).collect();
        let exp_n = ivs.len() + s.has_default_successor() as usize;
        if es.len() != exp_n {
            msgs.push(format!("state {}: edges() yields {} edges, expected {} ({} intervals, default: {})", q, es.len(), exp_n, ivs.len(), s.has_default_successor()));
        }
        let mut seen_ids: HashSet<String> = HashSet::new();
        for (cid, t) in &es {
            if !seen_ids.insert(format!("{}", cid)) {
                msgs.push(format!("state {}: edges() lists class {} twice", q, cid));
            }
            if !s.valid_class_id(*cid) {
                msgs.push(format!("state {}: edges() lists invalid class {}", q, cid));
                continue;
            }
            if a.class_next(s, *cid).id() != *t {
                msgs.push(format!("state {}: edge ({}, {}) but class_next gives {}", q, cid, t, a.class_next(s, *cid).id()));
            }
            match cid {
                ClassId::Interval(i) => {
                    if *i >= ivs.len() || a.next(s, ivs[*i].0).id() != *t || a.next(s, ivs[*i].1).id() != *t {
                        msgs.push(format!("state {}: edge ({}, {}) disagrees with next on the end points of the interval", q, cid, t));
                    }
                }
                ClassId::Complement => {
                    if let Some(c) = boundary_chars(&ivs).into_iter().find(|&c| my_class_of(&ivs, c) == ClassId::Complement) {
                        if a.next(s, c).id() != *t {
                            msgs.push(format!("state {}: default edge to {} but next({}) = {}", q, t, c, a.next(s, c).id()));
                        }
                    }
                    if a.default_successor(s).map(|x| x.id()) != Some(*t) || s.default_successor() != Some(*t) {
                        msgs.push(format!("state {}: default edge to {} but default_successor() disagrees", q, t));
                    }
                }
            }
        }
        // char_set_next on every [x,y] over the boundary characters of this state
        let b = boundary_chars(&ivs);
        for (ai, &x) in b.iter().enumerate() {
            for &y in &b[ai..] {
                rep.inc("char_set_next_calls");
                let inside = ivs.iter().position(|&(l, h)| l <= x && y <= h);
                let meets = ivs.iter().any(|&(l, h)| !(y < l || h < x));
                let got = a.char_set_next(s, &CharSet::range(x, y));
                match (inside, meets) {
                    (Some(_), _) | (None, false) => {
                        let exp = a.next(s, x).id();
                        match got {
                            Ok(t) if t.id() == exp => {}
                            Ok(t) => msgs.push(format!("state {}: char_set_next([{},{}]) = {} but next({}) = {}", q, x, y, t.id(), x, exp)),
                            Err(e) => msgs.push(format!("state {}: char_set_next([{},{}]) failed with {:?} although the set lies in one class", q, x, y, e)),
                        }
                    }
                    (None, true) => {
                        if let Ok(t) = got {
                            msgs.push(format!("state {}: char_set_next([{},{}]) = Ok({}) although the set meets more than one class", q, x, y, t.id()));
                        }
                    }
                }
                if msgs.len() > 3 {
                    return;
                }
            }
        }
    }
}

fn check_c14(ch: &mut Chunk<'_>, t: RegLan, shallow: bool, rep: &mut Report) -> Vec<String> {
    let u = ch.u;
    let mut msgs = vec![];
    let mut a = ch.re.compile(t);
    let n = a.num_states();
    if n >= 2 {
        rep.inc("nontrivial");
    }
    rep.hist("automaton_states", &bucket(n));
    check_tables(&a, &u.reps, rep, &mut msgs);
    if shallow && msgs.is_empty() {
        // every character of the alphabet falls in the class of the combined partition that the intervals say,
        // and the compiled table agrees with next() for it
        let part = a.combined_char_partition();
        let pivs: Vec<(u32, u32)> = part.ranges().map(bounds_of).collect();
        let alpha = a.pick_alphabet();
        let tbl = a.compile_successors();
        let idx_of_class: HashMap<String, usize> = alpha.iter().enumerate().map(|(i, &c)| (format!("{}", my_class_of(&pivs, c)), i)).collect();
        'outer: for c in 0..=MAX_CHAR {
            let cls = my_class_of(&pivs, c);
            if part.class_of_char(c) != cls {
                msgs.push(format!("class_of_char({}) = {} but the intervals say {}", c, part.class_of_char(c), cls));
                break;
            }
            let i = idx_of_class[&format!("{}", cls)];
            for q in 0..n {
                if tbl.eval(q as u32, i as u32) as usize != a.next(a.state(q), c).id() {
                    msgs.push(format!("character {} (class {}, alphabet index {}): table says {} but next(state {}) = {}", c, cls, i, tbl.eval(q as u32, i as u32), q, a.next(a.state(q), c).id()));
                    break 'outer;
                }
            }
        }
        rep.add("sweep_steps", (MAX_CHAR as u64 + 1) * n as u64);
        rep.add("transitions", (MAX_CHAR as u64 + 1) * n as u64);
        rep.add("impl_traces", (MAX_CHAR as u64 + 1) * n as u64);
    }
    // all states of a compiled automaton are reachable: pruning must not change anything
    let before: Vec<(bool, Vec<usize>)> = (0..n).map(|q| (a.state(q).is_final(), u.reps.iter().map(|&c| a.next(a.state(q), c).id()).collect())).collect();
    let init = a.initial_state().id();
    a.remove_unreachable_states();
    if a.num_states() != n {
        msgs.push(format!("remove_unreachable_states changed the number of states of a compiled automaton from {} to {}", n, a.num_states()));
    } else {
        // same language: simulate both from the initial states
        let mut seen = HashSet::new();
        let mut st = vec![(init, a.initial_state().id())];
        seen.insert(st[0]);
        while let Some((x, y)) = st.pop() {
            if before[x].0 != a.state(y).is_final() {
                msgs.push("remove_unreachable_states changed the language".into());
                break;
            }
            for (ci, &c) in u.reps.iter().enumerate() {
                let nx = (before[x].1[ci], a.next(a.state(y), c).id());
                if seen.insert(nx) {
                    st.push(nx);
                }
            }
        }
    }
    msgs
}

// ---------------------------------------------------------------------------------------------
// C03

fn lang_eq_from(u: &Universe, re: &mut ReManager, t: RegLan, rf: &Dfa, q0: usize, rep: &mut Report) -> Option<Vec<u32>> {
    let pr = product_terms(u, re, t, rf, q0);
    count_prod(rep, &pr);
    pr.bad.map(|b| pr.word(b))
}

fn check_c03(ch: &mut Chunk<'_>, t: RegLan, rf: &Dfa, shallow: bool, rep: &mut Report) -> Vec<String> {
    let u = ch.u;
    let mut msgs = vec![];
    let ivs = class_intervals(t);
    // 2. cover
    if !sorted_disjoint(&ivs) {
        msgs.push(format!("char_ranges() {:?} are not sorted and disjoint", ivs));
        return msgs;
    }
    let comp_empty = covered(&ivs) == MAX_CHAR as u64 + 1;
    if t.empty_complement() != comp_empty {
        msgs.push(format!("empty_complement() = {} but the intervals {} the alphabet", t.empty_complement(), if comp_empty { "cover" } else { "do not cover" }));
    }
    if t.num_deriv_classes() != ivs.len() {
        msgs.push(format!("num_deriv_classes() = {} but char_ranges() has {} intervals", t.num_deriv_classes(), ivs.len()));
    }
    let ids: Vec<ClassId> = t.class_ids().collect();
    let mut exp_ids: Vec<ClassId> = (0..ivs.len()).map(ClassId::Interval).collect();
    if !comp_empty {
        exp_ids.push(ClassId::Complement);
    }
    // the listing must consist of exactly the non-empty classes (its order is not prescribed)
    if ids.len() != exp_ids.len() || !exp_ids.iter().all(|e| ids.iter().filter(|x| *x == e).count() == 1) {
        msgs.push(format!("class_ids() = {:?}, expected the classes {:?}", ids, exp_ids));
        return msgs;
    }
    if ids.len() >= 2 {
        rep.inc("nontrivial");
    }
    rep.hist("derivative_classes", &bucket(ids.len()));
    for &cid in &exp_ids {
        if !t.valid_class_id(cid) {
            msgs.push(format!("valid_class_id({}) is false for a listed class", cid));
        }
    }
    // 1 + 3. quotient and uniformity: every probed character of a class gives the same reference quotient,
    // and the derivative term denotes it
    let mut chars = boundary_chars(&ivs);
    chars.extend(u.reps.iter().copied());
    chars.sort_unstable();
    chars.dedup();
    let mut quot_of_class: HashMap<String, (u32, usize)> = HashMap::new();
    let mut checked_terms: HashSet<(usize, usize)> = HashSet::new();
    for &c in &chars {
        let cid = my_class_of(&ivs, c);
        let qs = rf.step(rf.init, u.region_of(c));
        let key = format!("{}", cid);
        match quot_of_class.get(&key) {
            Some(&(c0, q0)) => {
                // reference DFA is minimal: different states = different languages
                if q0 != qs {
                    msgs.push(format!("characters {} and {} are in the same derivative class {} but have different left quotients", c0, c, key));
                    return msgs;
                }
            }
            None => {
                quot_of_class.insert(key, (c, qs));
            }
        }
        let dc = ch.re.char_derivative(t, c);
        rep.inc("char_derivative_calls");
        if checked_terms.insert((ptr(dc), qs)) {
            if let Some(w) = lang_eq_from(u, &mut ch.re, dc, rf, qs, rep) {
                msgs.push(format!("char_derivative(e, {}) = {} is not the left quotient: it differs on continuation {}", c, dc, show_word(&w)));
                return msgs;
            }
        }
        // class_derivative for the class of c
        match ch.re.class_derivative(t, cid) {
            Err(e) => {
                msgs.push(format!("class_derivative(e, {}) failed with {:?} for the class of character {}", cid, e, c));
                return msgs;
            }
            Ok(x) => {
                if !std::ptr::eq(x, dc) {
                    rep.inc("class_deriv_term_differs_from_char_deriv");
                    if checked_terms.insert((ptr(x), qs)) {
                        if let Some(w) = lang_eq_from(u, &mut ch.re, x, rf, qs, rep) {
                            msgs.push(format!("class_derivative(e, {}) = {} is not the derivative w.r.t. character {} of that class (differs on continuation {})", cid, x, c, show_word(&w)));
                            return msgs;
                        }
                    }
                }
                let y = ch.re.class_derivative_unchecked(t, cid);
                if !std::ptr::eq(x, y) && checked_terms.insert((ptr(y), qs)) {
                    if let Some(w) = lang_eq_from(u, &mut ch.re, y, rf, qs, rep) {
                        msgs.push(format!("class_derivative_unchecked(e, {}) is not the derivative for character {} (differs on {})", cid, c, show_word(&w)));
                        return msgs;
                    }
                }
            }
        }
    }
    // full-alphabet single-step sweep on shallow programs: every character of a region gives the derivative
    // of the region's first character (the program cannot separate them)
    if shallow {
        for &(l, h) in &u.regions {
            let d0 = ch.re.char_derivative(t, l);
            let c0 = my_class_of(&ivs, l);
            for c in l..=h {
                let d = ch.re.char_derivative(t, c);
                if !std::ptr::eq(d, d0) {
                    // a different term is fine if it denotes the same quotient
                    let qs = rf.step(rf.init, u.region_of(c));
                    if let Some(w) = lang_eq_from(u, &mut ch.re, d, rf, qs, rep) {
                        msgs.push(format!("char_derivative(e, {}) differs from the left quotient on continuation {}", c, show_word(&w)));
                        return msgs;
                    }
                }
                let _ = c0;
            }
        }
        rep.add("sweep_steps", MAX_CHAR as u64 + 1);
        rep.add("transitions", MAX_CHAR as u64 + 1);
        rep.add("impl_traces", MAX_CHAR as u64 + 1);
    }
    // 5. invalid class ids
    let n = ivs.len();
    let mut bad_ids = vec![ClassId::Interval(n), ClassId::Interval(n + 7), ClassId::Interval(usize::MAX)];
    if comp_empty {
        bad_ids.push(ClassId::Complement);
    }
    for cid in bad_ids {
        if t.valid_class_id(cid) {
            msgs.push(format!("valid_class_id({}) is true for an invalid id", cid));
        }
        match ch.re.class_derivative(t, cid) {
            Err(Error::BadClassId) => {}
            other => msgs.push(format!("class_derivative(e, {}) = {:?} for an invalid class id, expected Err(BadClassId)", cid, other.map(|x| format!("{}", x)))),
        }
    }
    // 4. set_derivative on every [a,b] over the boundary characters
    let b = boundary_chars(&ivs);
    for (ai, &x) in b.iter().enumerate() {
        for &y in &b[ai..] {
            rep.inc("set_derivative_calls");
            let inside = ivs.iter().position(|&(l, h)| l <= x && y <= h);
            let meets = ivs.iter().any(|&(l, h)| !(y < l || h < x));
            let got = ch.re.set_derivative(t, &CharSet::range(x, y));
            match (inside, meets) {
                (Some(_), _) | (None, false) => {
                    rep.inc("set_derivative_ok_expected");
                    let qs = rf.step(rf.init, u.region_of(x));
                    match got {
                        Err(e) => msgs.push(format!("set_derivative(e, [{},{}]) failed with {:?} although the set lies inside one derivative class", x, y, e)),
                        Ok(d) => {
                            if checked_terms.insert((ptr(d), qs)) {
                                if let Some(w) = lang_eq_from(u, &mut ch.re, d, rf, qs, rep) {
                                    msgs.push(format!("set_derivative(e, [{},{}]) = {} is not the common derivative of the class (differs on continuation {})", x, y, d, show_word(&w)));
                                }
                            }
                            let d2 = ch.re.set_derivative_unchecked(t, &CharSet::range(x, y));
                            if !std::ptr::eq(d, d2) && checked_terms.insert((ptr(d2), qs)) {
                                if let Some(w) = lang_eq_from(u, &mut ch.re, d2, rf, qs, rep) {
                                    msgs.push(format!("set_derivative_unchecked(e, [{},{}]) is not the common derivative (differs on {})", x, y, show_word(&w)));
                                }
                            }
                        }
                    }
                }
                (None, true) => {
                    rep.inc("set_derivative_err_expected");
                    if let Ok(d) = got {
                        msgs.push(format!("set_derivative(e, [{},{}]) = Ok({}) although the set meets more than one derivative class (classes {:?})", x, y, d, ivs));
                    }
                }
            }
            if msgs.len() > 3 {
                return msgs;
            }
        }
    }
    // str_derivative composes char_derivative
    let reps = &u.reps;
    let mut words: Vec<Vec<u32>> = vec![vec![]];
    for &c in reps.iter() {
        words.push(vec![c]);
        for &d in reps.iter().step_by(2) {
            words.push(vec![c, d]);
            words.push(vec![d, c, d]);
        }
    }
    for w in &words {
        let mut x = t;
        for &c in w {
            x = ch.re.char_derivative(x, c);
        }
        let y = ch.re.str_derivative(t, &sword(w));
        rep.inc("str_derivative_calls");
        if !std::ptr::eq(x, y) {
            // language-level comparison
            let mut q = rf.init;
            for &c in w {
                q = rf.step(q, u.region_of(c));
            }
            if let Some(cw) = lang_eq_from(u, &mut ch.re, y, rf, q, rep) {
                msgs.push(format!("str_derivative(e, {}) = {} is not the quotient by that string (differs on continuation {})", show_word(w), y, show_word(&cw)));
                break;
            }
        }
    }
    msgs
}

// ---------------------------------------------------------------------------------------------
// cross-validation of the two reference semantics (machinery self-check, batch 0 of every regex run)

pub const XV_NB: usize = 12;

pub fn cross_validate(rep: &mut Report, part: usize, parts: usize) {
    let fam = core_thorough();
    let u = fam.universe().clone();
    let mut cache = RefCache::new(u.clone());
    let k = u.k();
    let mut words: Vec<Vec<usize>> = vec![vec![]];
    let mut cur: Vec<Vec<usize>> = vec![vec![]];
    for _ in 0..4 {
        let mut nx = vec![];
        for s in &cur {
            for c in 0..k {
                let mut t = s.clone();
                t.push(c);
                nx.push(t);
            }
        }
        words.extend(nx.iter().cloned());
        cur = nx;
    }
    let n1 = fam.l1.len();
    let mut idx: Vec<usize> = (0..n1).collect();
    // a fixed slice of level 2 (unary part completely at stride 3, binary part at a coarse stride)
    idx.extend((n1..n1 + n1 * fam.uops.len()).step_by(3));
    idx.extend((n1 + n1 * fam.uops.len()..fam.len()).step_by(1499));
    let side = side_family(false);
    let mut progs: Vec<P> = idx.iter().map(|&i| fam.get(i)).collect();
    progs.extend((0..side.len()).step_by(41).map(|i| side.get(i)));
    let mut bad = 0u64;
    let progs: Vec<P> = progs.into_iter().enumerate().filter(|(i, _)| i % parts == part).map(|(_, p)| p).collect();
    for p in &progs {
        beat();
        let d = cache.dfa(p);
        let mut ws = WordSem::new(&u);
        for w in &words {
            if ws.member(p, w) != d.accepts(w) {
                bad += 1;
                rep.note(format!("REFERENCE MISMATCH: program {} word {:?}: word-level {} vs DFA {}", p.show(), w, ws.member(p, w), d.accepts(w)));
                break;
            }
        }
    }
    rep.add("xval_programs", progs.len() as u64);
    rep.add("xval_comparisons", (progs.len() * words.len()) as u64);
    if bad > 0 {
        // machinery failure, not a verdict about the code under test: make the worker die loudly
        eprintln!("the two reference semantics disagree on {} programs", bad);
        std::process::exit(4);
    }
}
