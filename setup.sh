#!/bin/bash
# pre-builds the harness (both profiles) offline, from files on disk only
set -e
cd "$(dirname "$0")/harness"
export CARGO_NET_OFFLINE=true
cargo build --offline --release
cargo build --offline
echo "setup ok"
